#!/usr/bin/env python3
"""Infrastructure of the tbfmm verification framework: building the C++ harness against /repo's
current working tree, running TLC, known findings, evidence files, VIOLATION reporting.
Python standard library only."""
import hashlib, json, os, re, shutil, subprocess, sys, time, glob

VERIF = os.path.dirname(os.path.abspath(__file__))
REPO = os.environ.get("VERIF_REPO", "/repo")
CACHE = os.path.join(VERIF, ".cache")
SPEC = os.path.join(VERIF, "spec")
HARNESS = os.path.join(VERIF, "harness")
REPLAYS = os.path.join(VERIF, "replays")
EVIDENCE = os.environ.get("VERIF_EVIDENCE_DIR") or os.path.join(VERIF, "evidence")   # (the override is used by tools/trymut.sh so that mutant runs do not rewrite committed evidence)
TLA_CP = "/opt/veriftools/tla/tla2tools.jar:/opt/veriftools/tla/CommunityModules-deps.jar"
NCPU = os.cpu_count() or 4


class HarnessError(Exception):
    """Machinery failure (exit code 2), never a verdict."""


def log(msg):
    print(msg, flush=True)


def sha(*parts):
    h = hashlib.sha256()
    for p in parts:
        h.update(p if isinstance(p, bytes) else str(p).encode())
        h.update(b"\0")
    return h.hexdigest()[:16]


_tree_hash_cache = {}


def tree_hash(root, exts=(".hpp", ".h", ".cpp", ".hxx")):
    """Content hash of a source tree (so that an edited source is always recompiled)."""
    if root in _tree_hash_cache:
        return _tree_hash_cache[root]
    h = hashlib.sha256()
    for dp, dn, fn in sorted(os.walk(root)):
        dn.sort()
        for f in sorted(fn):
            if f.endswith(exts):
                p = os.path.join(dp, f)
                h.update(os.path.relpath(p, root).encode())
                with open(p, "rb") as fh:
                    h.update(fh.read())
    _tree_hash_cache[root] = h.hexdigest()[:16]
    return _tree_hash_cache[root]


# ------------------------------------------------------------------ building the harness
BASE_FLAGS = ["-std=c++17", "-fopenmp", "-I" + os.path.join(REPO, "src"), "-I" + HARNESS, "-w"]
# -ftrivial-auto-var-init=pattern: an uninitialised automatic becomes a deterministic, reportable value
PLAIN_FLAGS = ["-O1", "-DNDEBUG", "-ftrivial-auto-var-init=pattern"]
ASAN_FLAGS = ["-O1", "-g", "-fsanitize=address,undefined", "-fno-sanitize-recover=undefined", "-fno-omit-frame-pointer",
              "-UNDEBUG", "-ftrivial-auto-var-init=pattern"]


import threading
_build_locks = {}
_build_locks_guard = threading.Lock()


def build(name, source, defines=(), variant="plain", extra=()):
    """Compile one harness translation unit against /repo's working tree; cached by content hash."""
    flags = list(BASE_FLAGS) + (ASAN_FLAGS if variant == "asan" else PLAIN_FLAGS) + ["-D" + d for d in defines] + list(extra)
    key = sha(tree_hash(os.path.join(REPO, "src")), tree_hash(HARNESS), name, source, " ".join(flags))
    outdir = os.path.join(CACHE, "bin", key)
    out = os.path.join(outdir, name)
    with _build_locks_guard:
        lock = _build_locks.setdefault(key, threading.Lock())
    with lock:
        return _build_locked(name, source, flags, outdir, out)


def _build_locked(name, source, flags, outdir, out):
    if os.path.exists(out):
        return out, None
    os.makedirs(outdir, exist_ok=True)
    tmp = "%s.tmp.%d.%d" % (out, os.getpid(), threading.get_ident())
    cmd = ["g++"] + [f for f in flags if not f.startswith("-l")] + [os.path.join(HARNESS, source), "-o", tmp] + [f for f in flags if f.startswith("-l")]
    t0 = time.time()
    p = subprocess.run(cmd, stdout=subprocess.PIPE, stderr=subprocess.STDOUT, text=True)
    if p.returncode != 0:
        logp = os.path.join(outdir, name + ".compile.log")
        with open(logp, "w") as f:
            f.write(" ".join(cmd) + "\n" + p.stdout)
        return None, logp
    os.replace(tmp, out)
    return out, None


def build_many(specs, jobs=None):
    """specs: list of dicts(name, source, defines, variant). Builds in parallel. Returns {name: (path, errlog)}."""
    from concurrent.futures import ThreadPoolExecutor
    res = {}
    with ThreadPoolExecutor(max_workers=jobs or NCPU) as ex:
        futs = {s["name"]: ex.submit(build, s["name"], s["source"], s.get("defines", ()), s.get("variant", "plain"), s.get("extra", ())) for s in specs}
        for n, f in futs.items():
            res[n] = f.result()
    return res


def prune_cache(keep_hashes=6):
    """Bound the size of the binary cache."""
    d = os.path.join(CACHE, "bin")
    if not os.path.isdir(d):
        return
    ents = sorted((os.path.getmtime(os.path.join(d, e)), e) for e in os.listdir(d))
    for _, e in ents[:-200]:
        shutil.rmtree(os.path.join(d, e), ignore_errors=True)


# ------------------------------------------------------------------ running TLC
class TlcResult:
    def __init__(self):
        self.ok = False            # model checking completed, no invariant violated
        self.violated = None       # name of a violated invariant / property, if any
        self.error = None          # other TLC error text
        self.generated = 0
        self.distinct = 0
        self.lines = []            # JSON objects printed by the spec (PrintT(ToJson(..)))
        self.wall = 0.0
        self.logpath = None
        self.coverage = {}
        self.cfg = None


_run_counter = [0]


def run_tlc(module, cfg_text, env=None, workers=1, timeout=900, simulate=None, extra_args=(), heap="6g", keep_json=True, tag=""):
    """Run TLC (see _run_tlc_once).  A run that ends without any verdict - the JVM was killed (out-of-memory killer on a loaded
    machine) or crashed before TLC printed a result - is repeated once; a verdict (completed, violated, TLC error, timeout) never is."""
    res = _run_tlc_once(module, cfg_text, env, workers, timeout, simulate, extra_args, heap, keep_json, tag)
    if not res.ok and res.violated is None and res.error is None:
        time.sleep(5)
        res2 = _run_tlc_once(module, cfg_text, env, workers, timeout, simulate, extra_args, heap, keep_json, tag + "-retry")
        if not res2.ok and res2.violated is None and res2.error is None:
            res2.error = "TLC ended twice without a verdict (exit status of the JVM: killed or crashed)"
        return res2
    return res


def _run_tlc_once(module, cfg_text, env=None, workers=1, timeout=900, simulate=None, extra_args=(), heap="6g", keep_json=True, tag=""):
    """Run TLC on spec/<module>.tla with the given configuration text. Every run has its own metadir.
    ONE worker per process by default: the specifications park evaluated tables in TLC registers (TLCSet/TLCGet), and values shared
    between worker threads are normalised lazily without synchronisation - with 6 workers TLC silently dropped an element of a
    table-derived set (a false ExactlyOnce violation that one worker never reproduces).  Parallelism comes from sharding the
    scenario space over processes (constants Shard / NbShards)."""
    _run_counter[0] += 1
    rid = "%s-%d-%d%s" % (module, os.getpid(), _run_counter[0], ("-" + tag) if tag else "")
    rdir = os.path.join(CACHE, "tlc", rid)
    shutil.rmtree(rdir, ignore_errors=True)
    os.makedirs(rdir)
    cfgp = os.path.join(rdir, module + ".cfg")
    with open(cfgp, "w") as f:
        f.write(cfg_text)
    cmd = ["timeout", str(int(timeout)), "java", "-XX:+UseParallelGC", "-Xmx" + heap, "-Xss16m", "-cp", TLA_CP, "tlc2.TLC",
           "-noGenerateSpecTE", "-workers", str(workers or 1), "-metadir", os.path.join(rdir, "states"), "-config", cfgp]
    if simulate:
        cmd += ["-simulate", simulate]
    cmd += list(extra_args) + [os.path.join(SPEC, module + ".tla")]
    e = dict(os.environ)
    e.update(env or {})
    res = TlcResult()
    res.cfg = cfg_text
    res.logpath = os.path.join(rdir, "tlc.log")
    t0 = time.time()
    with open(res.logpath, "w") as lf:
        p = subprocess.run(cmd, stdout=lf, stderr=subprocess.STDOUT, env=e, cwd=rdir)
    res.wall = time.time() - t0
    done = False
    with open(res.logpath) as lf:
        for line in lf:
            if line.startswith('"{') and keep_json:
                try:
                    res.lines.append(json.loads(json.loads(line)))
                except Exception:
                    pass
                continue
            m = re.search(r"(\d+) states generated, (\d+) distinct states found", line)
            if m:
                res.generated, res.distinct = int(m.group(1)), int(m.group(2))
            m = re.search(r"Invariant (\S+) is violated", line)
            if m and not res.violated:
                res.violated = m.group(1)
            m = re.search(r"(?:Temporal properties|Action property \S+|property \S+) (?:were|is|was) violated", line)
            if m and not res.violated:
                res.violated = line.strip()
            if "Model checking completed. No error has been found." in line or "Finished in" in line and simulate:
                done = True
            if line.startswith("Error:") and res.error is None and "Invariant" not in line:
                res.error = line.strip()
    shutil.rmtree(os.path.join(rdir, "states"), ignore_errors=True)
    if p.returncode == 124:
        res.error = "TLC timeout after %ds" % timeout
    res.ok = done and res.violated is None and res.error is None and p.returncode == 0
    return res


def cfg(spec="Spec", constants=None, invariants=(), properties=(), extra=""):
    out = ["SPECIFICATION " + spec, "CONSTANTS"]
    for k, v in (constants or {}).items():
        if isinstance(v, bool):
            v = "TRUE" if v else "FALSE"
        elif isinstance(v, str) and not (v.startswith("{") or v.startswith('"') or v.startswith("<<")):
            v = '"%s"' % v
        elif isinstance(v, (set, frozenset, list, tuple)):
            v = "{" + ", ".join(str(x) for x in sorted(v)) + "}"
        out.append("  %s = %s" % (k, v))
    if invariants:
        out.append("INVARIANTS\n  " + " ".join(invariants))
    if properties:
        out.append("PROPERTIES\n  " + " ".join(properties))
    out.append("CHECK_DEADLOCK FALSE")
    if extra:
        out.append(extra)
    return "\n".join(out) + "\n"


# ------------------------------------------------------------------ running harness binaries
def run_bin(path, args=(), stdin_text=None, stdin_path=None, timeout=600, env=None):
    e = dict(os.environ)
    e.setdefault("ASAN_OPTIONS", "detect_stack_use_after_return=1:detect_leaks=1:abort_on_error=0:exitcode=99")
    e.setdefault("UBSAN_OPTIONS", "print_stacktrace=1:halt_on_error=1:exitcode=98")
    e.update(env or {})
    fin = open(stdin_path) if stdin_path else None
    try:
        p = subprocess.run(["timeout", str(int(timeout)), path] + [str(a) for a in args], input=stdin_text if not fin else None,
                           stdin=fin, stdout=subprocess.PIPE, stderr=subprocess.PIPE, text=True, env=e)
    finally:
        if fin:
            fin.close()
    return p.returncode, p.stdout, p.stderr


def parse_harness_output(out):
    """-> (mismatches [(kind, key, text)], summary dict or None)"""
    mism, summary = [], None
    for line in out.splitlines():
        if line.startswith("MISMATCH "):
            m = re.match(r"MISMATCH kind=(\S+) key=(\S+) ?(.*)", line)
            if m:
                mism.append((m.group(1), m.group(2), m.group(3)))
        elif line.startswith("SUMMARY "):
            summary = {}
            for tok in line.split()[1:]:
                if "=" in tok:
                    k, v = tok.split("=", 1)
                    summary[k] = int(v) if re.fullmatch(r"-?\d+", v) else v
    return mism, summary


# ------------------------------------------------------------------ known findings
def load_findings():
    p = os.path.join(VERIF, "known_findings.json")
    if not os.path.exists(p):
        return []
    with open(p) as f:
        return json.load(f)["findings"]


# ------------------------------------------------------------------ a check run: collects violations + evidence
class Run:
    def __init__(self, pid, tier, level):
        self.pid, self.tier, self.level = pid, tier, level
        self.seed = int(os.environ.get("VERIF_SEED", "1"))
        self.t0 = time.time()
        self.violations = []      # (key, text, replay_path)
        self.known_hits = {}      # finding id -> count
        self.coverage = {"states": 0, "transitions": 0, "traces_validated_against_impl": 0, "evaluations": 0,
                         "distinct_nontrivial": 0, "samples": [], "rule": "", "tlc_runs": [], "harness_runs": []}
        self.assumptions = []
        self.findings = [f for f in load_findings() if f["property"] == pid]
        self.machinery_errors = []

    # -- TLC bookkeeping
    def add_tlc(self, name, res, note=""):
        self.coverage["states"] += res.distinct
        self.coverage["transitions"] += res.generated
        self.coverage["tlc_runs"].append({"config": name, "distinct_states": res.distinct, "states_generated": res.generated,
                                          "wall_s": round(res.wall, 1), "ok": res.ok, "json_lines": len(res.lines), "note": note})
        if not res.ok and res.violated is None:
            self.machinery_errors.append("TLC run %s failed: %s (log %s)" % (name, res.error, res.logpath))

    def add_harness(self, name, summary, rc):
        self.coverage["harness_runs"].append({"run": name, "summary": summary, "exit": rc})

    def sample(self, s):
        if len(self.coverage["samples"]) < 6:
            self.coverage["samples"].append(s)

    # -- verdicts
    def violation(self, key, text, replay=None):
        """Report a violation unless it is a listed known finding."""
        for f in self.findings:
            if f.get("status") == "known" and re.search(f["key"], key):
                self.known_hits[f["id"]] = self.known_hits.get(f["id"], 0) + 1
                return False
        self.violations.append((key, text, replay))
        return True

    def write_replay(self, name, obj):
        os.makedirs(REPLAYS, exist_ok=True)
        p = os.path.join(REPLAYS, "%s-%s.json" % (self.pid, re.sub(r"[^A-Za-z0-9_.-]", "_", name)[:80]))
        obj = dict(obj)
        obj["property"] = self.pid
        with open(p, "w") as f:
            json.dump(obj, f, indent=1)
        return p

    def finish(self):
        wall = time.time() - self.t0
        for f in self.findings:
            if f.get("status") == "known" and self.known_hits.get(f["id"]):
                log("KNOWN-FINDING: property=%s %s (%d occurrences in this run)" % (self.pid, f["what"], self.known_hits[f["id"]]))
        cov = self.coverage
        cov["known_finding_hits"] = self.known_hits
        ev = {"property_id": self.pid, "tier": self.tier, "seed": self.seed, "level": self.level, "coverage": cov,
              "assumptions": self.assumptions, "wall_s": round(wall, 1), "violations": len(self.violations)}
        if self.level == "model_checking":
            if cov["states"] < 1 or cov["transitions"] < 1:
                self.machinery_errors.append("no TLC states recorded")
        if not getattr(self, "no_evidence", False):
            os.makedirs(EVIDENCE, exist_ok=True)
            with open(os.path.join(EVIDENCE, self.pid + ".json"), "w") as f:
                json.dump(ev, f, indent=1)
        if self.machinery_errors and not self.violations:
            for m in self.machinery_errors:
                log("MACHINERY-ERROR: " + m)
            return 2
        shown = 0
        for key, text, replay in self.violations:
            if shown < 25:
                log("VIOLATION property=%s replay=%s   # %s: %s" % (self.pid, replay or "-", key, text[:300]))
            shown += 1
        if shown > 25:
            log("... %d more violations" % (shown - 25))
        log("%s %s: %s in %.0fs (states=%d, replayed/validated=%d)" % (self.pid, self.tier, "VIOLATED" if self.violations else "ok", wall,
                                                                      cov["states"], cov["traces_validated_against_impl"]))
        return 1 if self.violations else 0
