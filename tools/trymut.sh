#!/bin/bash
# usage: tools/trymut.sh <patch.diff> <Cxx> [<Cyy> ...]   -- applies a seeded change to /repo, runs the quick checks, restores /repo
set -u
patch=$1; shift
git -C /repo diff --quiet || { echo "/repo has local changes"; exit 2; }
git -C /repo apply "$patch" || { echo "patch does not apply"; exit 2; }
trap 'git -C /repo checkout -- . ' EXIT
for c in "$@"; do
  out=$(cd /verif && VERIF_EVIDENCE_DIR=/tmp/trymut_evidence ./verif.py check $c --tier ${TIER:-quick} 2>&1)
  rc=$?
  echo "== $c rc=$rc: $(echo "$out" | grep -c '^VIOLATION') violation lines"
  echo "$out" | grep '^VIOLATION' | head -${SHOW:-3} | cut -c1-400
  echo "$out" | tail -1
done
