#!/bin/bash
# usage: tools/confirm_seed.sh <name> [nosuite]  -- independent confirmation of a seeded change delivered in /tmp/wt_out/<name>:
#   demo on the unchanged sources (expect exit 0), demo with the patch (expect non-zero), full unit-test suite with the patch.
# Works in its own scratch worktree /tmp/cw/<name> (removed at the end). Result: /tmp/wt_out/<name>/confirm.txt
name=$1; out=/tmp/wt_out/$name; wt=/tmp/cw/$name
mkdir -p /tmp/cw; git -C /repo worktree add --detach $wt HEAD -q || exit 2
{
cd $out
cmdline=$(head -1 demo.cpp | sed -e 's|^// *||' -e "s|/tmp/wt/[A-Za-z0-9_]*/src|$wt/src|g" -e "s| demo.cpp| $out/demo.cpp|" -e "s| -o [^ ]*| -o $wt/demo_bin|")
echo "build: $cmdline"
eval "$cmdline" 2>&1 | tail -5; timeout 900 $wt/demo_bin > $wt/demo0.txt 2>&1; echo "demo_exit_unchanged_tree=$?"
git -C $wt apply $out/patch.diff || echo "PATCH DOES NOT APPLY"
eval "$cmdline" 2>&1 | tail -5; timeout 900 $wt/demo_bin > $wt/demo1.txt 2>&1; echo "demo_exit_with_change=$?"
tail -3 $wt/demo1.txt
if [ "${2:-}" != "nosuite" ]; then
  cmake -G Ninja -S $wt -B $wt/_build -DBUILD_TESTS=ON -DCMAKE_BUILD_TYPE=Release > $wt/cmake.log 2>&1
  cmake --build $wt/_build -j${JOBS:-8} > $wt/build.log 2>&1; echo "build_exit=$?"
  ctest --test-dir $wt/_build -j${JOBS:-8} --timeout 900 2>&1 | tail -3
fi
echo "base_commit=$(git -C /repo rev-parse --short HEAD)"
} > $out/confirm.txt 2>&1
git -C /repo worktree remove --force $wt
