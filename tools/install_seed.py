#!/usr/bin/env python3
"""usage: tools/install_seed.py <delivery name under /tmp/wt_out> <seeded dir name> <property> "<needs to manifest>" <caught_by,comma> ["check notes"]
Copies patch.diff / demo.cpp / notes.md (+ mock dir) into /verif/seeded/<dir>/ and writes meta.json from the confirmation log."""
import sys, os, re, json, shutil
name, dname, prop, needs, caught = sys.argv[1:6]
extra = sys.argv[6] if len(sys.argv) > 6 else ""
src = "/tmp/wt_out/" + name
dst = "/verif/seeded/" + dname
os.makedirs(dst, exist_ok=True)
for f in ("patch.diff", "demo.cpp", "notes.md"):
    if os.path.exists(os.path.join(src, f)):
        shutil.copy(os.path.join(src, f), dst)
if os.path.isdir(os.path.join(src, "mock")):
    shutil.copytree(os.path.join(src, "mock"), os.path.join(dst, "mock"), dirs_exist_ok=True)
conf = open(os.path.join(src, "confirm.txt")).read()
g = lambda k: (re.search(k + r"=(\S+)", conf) or [None, None])[1]
suite = (re.search(r"\d+% tests passed, \d+ tests failed out of \d+", conf) or [""])[0]
caught_l = [c for c in caught.split(",") if c]
meta = {"property": prop, "breaks": prop, "needs_to_manifest": needs, "caught_by": caught_l,
        "origin": "independent sub-agent given only the text of %s (plus a hint at which mechanism to look at) and a scratch worktree; round 2" % prop,
        "confirmed": {"demo_exit_unchanged_tree": int(g("demo_exit_unchanged_tree") or -1), "demo_exit_with_change": int(g("demo_exit_with_change") or -1),
                      "suite_with_change": suite, "base_commit": g("base_commit"),
                      "how": "tools/confirm_seed.sh: own scratch worktree of /repo under /tmp/cw, demo built with the command in its first line against the worktree sources and run without and with the patch; cmake+ninja build of all 26 tests with the patch, ctest -j8"},
        "checks_run": {c: "VIOLATION reported by ./verif.py check %s --tier quick with the patch applied to /repo (tools/trymut.sh), /repo restored afterwards" % c for c in caught_l}}
if extra:
    meta["notes"] = extra
json.dump(meta, open(os.path.join(dst, "meta.json"), "w"), indent=1)
print(json.dumps(meta["confirmed"]))
