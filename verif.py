#!/usr/bin/env python3
"""tbfmm model-based verification driver.

  ./verif.py setup
  ./verif.py check <Cxx> [--tier quick|thorough]
  ./verif.py replay <replay-file>
  ./verif.py selftest            (binding demonstration: corrupted traces / mutants must be rejected)

Exit codes of `check`: 0 property held on everything explored; 1 violation (a line
`VIOLATION property=<id> replay=<path>` is printed); 2 machinery failure (never a verdict).
"""
import argparse, json, os, sys, time, re, shutil, subprocess
from concurrent.futures import ThreadPoolExecutor
sys.path.insert(0, os.path.dirname(os.path.abspath(__file__)))
import vlib
from vlib import Run, run_tlc, cfg, build, build_many, run_bin, parse_harness_output, log, CACHE, VERIF, REPO

CHECKS = {}


def check(pid, level):
    def deco(fn):
        CHECKS[pid] = (fn, level)
        return fn
    return deco


def need(binres, run):
    """binres = (path, errlog) from build(); compile failure of the harness against /repo is a machinery error
    unless the check owns compile results (C19)."""
    path, err = binres
    if path is None:
        raise vlib.HarnessError("harness does not compile against /repo (log: %s)" % err)
    return path


# =====================================================================================================
# C11 - space-filling-curve index algebra
# =====================================================================================================
GRID_INVS = ["Bijection", "ParentContains", "ChildCodeDistinct", "ChildCodeIsOctant", "CodeRoundTrip", "ILSymmetric",
             "NeighSymmetric", "PeriodicCardinality", "ListsAreGeometric", "HalfFilterAntisymmetric", "PartitionLemma", "Emit"]


def grid_records(lines):
    out = []
    for r in lines:
        if r.get("k") != "cell":
            continue
        v = [r["l"], r["m"]] + list(r["c"]) + [r["p"], r["cc"], len(r["il"])] + sorted(r["il"]) + [len(r["nb"])] + sorted(r["nb"])
        out.append(" ".join(map(str, v)))
    return "\n".join(out) + "\n"


def grid_one(run, dim, height, periodic, order):
    """One (dimension, height, periodicity, ordering) cell of C11: TLC checks the axioms and prints the expected lists,
    conf_grid compares the library with them."""
    name = "grid-%s%s-d%d-h%d" % (order, "-per" if periodic else "", dim, height)
    binp = need(build("conf_grid_%s_%d_%d" % (order, dim, int(periodic)), "conf_grid.cpp",
                      ["DIMV=%d" % dim, "PERIODICV=%d" % int(periodic), "ORDERV=%d" % (0 if order == "morton" else 1)]), run)
    env = {}
    if order == "morton":
        c = cfg("Spec", dict(Dim=dim, Height=height, Periodic=periodic, Ordering="morton", EmitJson=True, Shard=0, NbShards=1), GRID_INVS)
    else:
        # code -> spec: the coordinate table of the implementation is loaded by TLC and checked against the axioms
        rc, out, err = run_bin(binp, ["dump", height])
        if rc != 0:
            raise vlib.HarnessError("conf_grid dump failed: " + err[:300])
        tdir = os.path.join(CACHE, "tables")
        os.makedirs(tdir, exist_ok=True)
        tpath = os.path.join(tdir, name + ".ndjson")
        with open(tpath, "w") as f:
            f.write(out)
        env["GRID_TABLE"] = tpath
        c = cfg("Spec", dict(Dim=dim, Height=height, Periodic=periodic, Ordering="table", EmitJson=True, Shard=0, NbShards=1), ["Emit"])
    res = run_tlc("GridCheck", c, env=env, workers=4, timeout=1500, tag=name)
    run.add_tlc(name, res)
    viol = []
    if res.violated:
        viol.append(("%s-spec" % name, "TLC: invariant %s of Grid violated (the specification itself is inconsistent)" % res.violated, None))
    ncell = 0
    for r in res.lines:
        if r.get("k") != "cell":
            continue
        ncell += 1
        key = "%s%s-d%d-h%d-l%d-m%d" % ("hilbert" if order != "morton" else "morton", "-per" if periodic else "", dim, height, r["l"], r["m"])
        for ax, val in r.get("ax", {}).items():
            if not val:
                viol.append((ax + ":" + key, "axiom %s of the grid hierarchy fails on the implementation's coordinate table (cell level %d index %d at %s)"
                             % (ax, r["l"], r["m"], r["c"]), {"kind": "grid", "dim": dim, "height": height, "periodic": periodic, "order": order}))
    rec = grid_records(res.lines)
    rc, out, err = run_bin(binp, ["check", height], stdin_text=rec)
    mism, summary = parse_harness_output(out)
    run.add_harness(name, summary, rc)
    if summary is None:
        raise vlib.HarnessError("conf_grid produced no summary (%s): %s" % (name, err[:300]))
    for kind, key, text in mism:
        viol.append((kind + ":" + key, text, {"kind": "grid", "dim": dim, "height": height, "periodic": periodic, "order": order}))
    return name, ncell, summary, viol, (res.lines[len(res.lines) // 2] if res.lines else None)


@check("C11", "model_checking")
def check_c11(run):
    if run.tier == "quick":
        cells = [(1, 6, False, "morton"), (2, 4, False, "morton"), (3, 3, False, "morton"), (4, 2, False, "morton"),
                 (1, 5, True, "morton"), (2, 4, True, "morton"), (3, 3, True, "morton"), (4, 2, True, "morton"),
                 (3, 3, False, "hilbert"), (3, 4, False, "hilbert")]
    else:
        cells = [(1, 9, False, "morton"), (2, 6, False, "morton"), (3, 4, False, "morton"), (4, 3, False, "morton"),
                 (1, 9, True, "morton"), (2, 6, True, "morton"), (3, 4, True, "morton"), (4, 3, True, "morton"),
                 (3, 2, False, "hilbert"), (3, 3, False, "hilbert"), (3, 4, False, "hilbert"), (3, 4, True, "hilbert")]
    with ThreadPoolExecutor(max_workers=6) as ex:
        results = list(ex.map(lambda c: grid_one(run, *c), cells))
    total_cells = 0
    for name, ncell, summary, viol, sample in results:
        total_cells += ncell
        run.coverage["traces_validated_against_impl"] += ncell
        run.coverage["evaluations"] += summary.get("checks", 0)
        if sample:
            s = dict(sample)
            s["il"] = s["il"][:6]
            run.sample({"config": name, "cell": s})
        for key, text, rp in viol:
            replay = run.write_replay(key, dict(rp or {}, key=key, text=text)) if rp else None
            run.violation(key, text, replay)
    run.coverage["distinct_nontrivial"] = total_cells
    run.coverage["rule"] = ("every cell of every level of each (dimension, height, periodicity, ordering) grid is one case; "
                            "TLC evaluates the Grid axioms on it and prints its parent, child code, interaction and neighbour lists with codes; "
                            "conf_grid compares the library's per-cell and per-group builders (self-inclusion and upper-half filters on and off) with them; "
                            "for the Hilbert ordering the coordinate table is dumped from the library and the axioms are evaluated by TLC on that table")
    run.coverage["exhaustive"] = True
    run.assumptions += ["heights bounded as listed in tlc_runs; deep indices (up to 63 bits) are not covered by this check",
                        "TLC's evaluation of Grid.tla is trusted; conf_grid decodes position codes with its own arithmetic"]


# =====================================================================================================
# command line
# =====================================================================================================
def cmd_setup(args):
    ok = True
    for tool in ["java", "g++", "timeout"]:
        if shutil.which(tool) is None:
            log("setup: missing tool " + tool)
            ok = False
    for f in sorted(os.listdir(vlib.SPEC)):
        if f.endswith(".tla"):
            p = subprocess.run(["java", "-cp", vlib.TLA_CP, "tla2sany.SANY", os.path.join(vlib.SPEC, f)], stdout=subprocess.PIPE, stderr=subprocess.STDOUT, text=True, cwd=vlib.SPEC)
            if p.returncode != 0 or "*** Errors" in p.stdout or "Fatal errors" in p.stdout:
                log("setup: SANY rejects %s\n%s" % (f, p.stdout[-800:]))
                ok = False
    os.makedirs(CACHE, exist_ok=True)
    log("setup: " + ("ok" if ok else "FAILED"))
    return 0 if ok else 2


def cmd_check(args):
    pid = args.property
    if pid not in CHECKS:
        log("no check registered for " + pid)
        return 2
    fn, level = CHECKS[pid]
    tier = args.tier or os.environ.get("VERIF_TIER", "quick")
    run = Run(pid, tier, level)
    try:
        fn(run)
    except vlib.HarnessError as e:
        run.machinery_errors.append(str(e))
    vlib.prune_cache()
    return run.finish()


def cmd_replay(args):
    with open(args.path) as f:
        obj = json.load(f)
    pid = obj.get("property")
    log("replay %s: %s" % (pid, json.dumps({k: v for k, v in obj.items() if k not in ("expected", "observed")})[:600]))
    if obj.get("kind") == "grid":
        run = Run(pid, "quick", "model_checking")
        name, ncell, summary, viol, _ = grid_one(run, obj["dim"], obj["height"], obj["periodic"], obj["order"])
        hit = [v for v in viol if v[0] == obj.get("key")]
        for key, text, _ in (hit or viol)[:10]:
            log("REPRODUCED %s: %s" % (key, text))
        return 1 if hit or viol else 0
    log("unknown replay kind")
    return 2


def main():
    ap = argparse.ArgumentParser()
    sub = ap.add_subparsers(dest="cmd")
    sub.add_parser("setup")
    c = sub.add_parser("check")
    c.add_argument("property")
    c.add_argument("--tier", choices=["quick", "thorough"])
    r = sub.add_parser("replay")
    r.add_argument("path")
    sub.add_parser("selftest")
    args = ap.parse_args()
    if args.cmd == "setup":
        sys.exit(cmd_setup(args))
    if args.cmd == "check":
        sys.exit(cmd_check(args))
    if args.cmd == "replay":
        sys.exit(cmd_replay(args))
    ap.print_help()
    sys.exit(2)


if __name__ == "__main__":
    main()
