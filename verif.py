#!/usr/bin/env python3
"""tbfmm model-based verification driver.

  ./verif.py setup
  ./verif.py check <Cxx> [--tier quick|thorough]
  ./verif.py replay <replay-file>
  ./verif.py selftest            (binding demonstration: corrupted traces / mutants must be rejected)

Exit codes of `check`: 0 property held on everything explored; 1 violation (a line
`VIOLATION property=<id> replay=<path>` is printed); 2 machinery failure (never a verdict).
"""
import argparse, json, os, sys, time, re, shutil, subprocess
from concurrent.futures import ThreadPoolExecutor
sys.path.insert(0, os.path.dirname(os.path.abspath(__file__)))
import vlib
from vlib import Run, run_tlc, cfg, build, build_many, run_bin, parse_harness_output, log, CACHE, VERIF, REPO

CHECKS = {}


def check(pid, level):
    def deco(fn):
        CHECKS[pid] = (fn, level)
        return fn
    return deco


def need(binres, run):
    """binres = (path, errlog) from build(); compile failure of the harness against /repo is a machinery error
    unless the check owns compile results (C19)."""
    path, err = binres
    if path is None:
        raise vlib.HarnessError("harness does not compile against /repo (log: %s)" % err)
    return path


# =====================================================================================================
# C11 - space-filling-curve index algebra
# =====================================================================================================
GRID_INVS = ["Bijection", "ParentContains", "ChildCodeDistinct", "ChildCodeIsOctant", "CodeRoundTrip", "ILSymmetric",
             "NeighSymmetric", "PeriodicCardinality", "ListsAreGeometric", "HalfFilterAntisymmetric", "PartitionLemma", "ShiftIsImage", "Emit"]


def grid_records(lines):
    out = []
    for r in lines:
        if r.get("k") != "cell":
            continue
        v = [r["l"], r["m"]] + list(r["c"]) + [r["p"], r["cc"], len(r["il"])] + sorted(r["il"]) + [len(r["nb"])] + sorted(r["nb"]) + [len(r.get("sh", []))] + sorted(r.get("sh", []))
        out.append(" ".join(map(str, v)))
    return "\n".join(out) + "\n"


def grid_one(run, dim, height, periodic, order):
    """One (dimension, height, periodicity, ordering) cell of C11: TLC checks the axioms and prints the expected lists,
    conf_grid compares the library with them."""
    name = "grid-%s%s-d%d-h%d" % (order, "-per" if periodic else "", dim, height)
    binp = need(build("conf_grid_%s_%d_%d" % (order, dim, int(periodic)), "conf_grid.cpp",
                      ["DIMV=%d" % dim, "PERIODICV=%d" % int(periodic), "ORDERV=%d" % (0 if order == "morton" else 1)]), run)
    env = {}
    if order == "morton":
        c = cfg("Spec", dict(Dim=dim, Height=height, Periodic=periodic, Ordering="morton", EmitJson=True, Shard=0, NbShards=1), GRID_INVS)
    else:
        # code -> spec: the coordinate table of the implementation is loaded by TLC and checked against the axioms
        rc, out, err = run_bin(binp, ["dump", height])
        if rc != 0:
            raise vlib.HarnessError("conf_grid dump failed: " + err[:300])
        tdir = os.path.join(CACHE, "tables")
        os.makedirs(tdir, exist_ok=True)
        tpath = os.path.join(tdir, name + ".ndjson")
        with open(tpath, "w") as f:
            f.write(out)
        env["GRID_TABLE"] = tpath
        c = cfg("Spec", dict(Dim=dim, Height=height, Periodic=periodic, Ordering="table", EmitJson=True, Shard=0, NbShards=1), ["Emit"])
    res = run_tlc("GridCheck", c, env=env, workers=1, timeout=1500, tag=name)
    run.add_tlc(name, res)
    viol = []
    if res.violated:
        viol.append(("%s-spec" % name, "TLC: invariant %s of Grid violated (the specification itself is inconsistent)" % res.violated, None))
    ncell = 0
    for r in res.lines:
        if r.get("k") != "cell":
            continue
        ncell += 1
        key = "%s%s-d%d-h%d-l%d-m%d" % ("hilbert" if order != "morton" else "morton", "-per" if periodic else "", dim, height, r["l"], r["m"])
        for ax, val in r.get("ax", {}).items():
            if not val:
                viol.append((ax + ":" + key, "axiom %s of the grid hierarchy fails on the implementation's coordinate table (cell level %d index %d at %s)"
                             % (ax, r["l"], r["m"], r["c"]), {"kind": "grid", "dim": dim, "height": height, "periodic": periodic, "order": order}))
    rec = grid_records(res.lines)
    rc, out, err = run_bin(binp, ["check", height], stdin_text=rec)
    mism, summary = parse_harness_output(out)
    run.add_harness(name, summary, rc)
    if summary is None:
        raise vlib.HarnessError("conf_grid produced no summary (%s): %s" % (name, err[:300]))
    for kind, key, text in mism:
        viol.append((kind + ":" + key, text, {"kind": "grid", "dim": dim, "height": height, "periodic": periodic, "order": order}))
    return name, ncell, summary, viol, (res.lines[len(res.lines) // 2] if res.lines else None)


def grid_deep(run, dim, level, periodic, nshards_pick, variant="plain", order="morton"):
    """Deep cells (indices up to 62 bits): TLC computes parents / neighbours / interaction lists on limb-wise coordinates (GridDeep.tla)."""
    name = "griddeep%s%s-d%d-l%d%s" % ("-hilbert" if order != "morton" else "", "-per" if periodic else "", dim, level, "-asan" if variant == "asan" else "")
    binp = need(build("conf_grid_%s_%d_%d%s" % (order, dim, int(periodic), "_asan" if variant == "asan" else ""), "conf_grid.cpp",
                      ["DIMV=%d" % dim, "PERIODICV=%d" % int(periodic), "ORDERV=%d" % (0 if order == "morton" else 1)], variant=variant), run)
    c = cfg("Spec", dict(Dim=dim, Level=level, Periodic=periodic, LimbBits=15, Shard=0, NbShards=nshards_pick), ["ArithmeticOK", "ILOffsetRule", "Emit"])
    res = run_tlc("GridDeep", c, workers=1, timeout=900, tag=name)
    run.add_tlc(name, res, note="GridDeep.tla: sampled deep cells (limbs all 0 / all 1 / around carries), dimension %d level %d (index of %d bits)" % (dim, level, dim * level))
    if res.violated:
        run.machinery_errors.append("TLC: %s of GridDeep.tla violated (%s)" % (res.violated, res.logpath))
    recs = []
    for r in res.lines:
        if r.get("k") != "deep":
            continue
        nl = len(r["c"][0])
        v = [r["level"], nl, 15]
        for cd in r["c"]:
            v += list(cd)
        for cd in r["parent"]:
            v += list(cd)
        v.append(r["cc"])
        for lst in (r["nb"], r["il"]):
            v.append(len(lst))
            for e in lst:
                for cd in e["c"]:
                    v += list(cd)
                v.append(e["code"])
        recs.append(" ".join(map(str, v)))
    rc, out, err = run_bin(binp, ["deep", level + 1], stdin_text="\n".join(recs) + "\n", timeout=300)
    mism, summary = parse_harness_output(out)
    if summary is None:
        if rc in (98, 99) or "runtime error" in err or "Sanitizer" in err:
            first = [l for l in err.splitlines() if "runtime error" in l or "ERROR: AddressSanitizer" in l or "SUMMARY" in l]
            run.violation("Sanitizer:" + name, "sanitizer report on deep indices: " + " | ".join(first[:2])[:400],
                          run.write_replay("Sanitizer-" + name, {"kind": "griddeep", "dim": dim, "level": level, "periodic": periodic, "shards": nshards_pick, "variant": variant, "order": order}))
            return
        run.violation("Crash:" + name, "conf_grid deep did not finish (exit %s): hang or fault on deep indices: %s" % (rc, (err or out)[-200:]), run.write_replay("Crash-" + name, {"kind": "griddeep", "dim": dim, "level": level, "periodic": periodic, "shards": nshards_pick, "variant": variant, "order": order}))
        return
    run.add_harness(name, summary, rc)
    run.coverage["traces_validated_against_impl"] += len(recs)
    run.coverage["evaluations"] += summary.get("checks", 0)
    run.coverage["distinct_nontrivial"] += len(recs)
    seen = set()
    for kind, key, text in mism:
        if (kind, key) in seen:
            continue
        seen.add((kind, key))
        run.violation(kind + ":" + key, text, run.write_replay(kind + "-" + key, {"kind": "griddeep", "dim": dim, "level": level, "periodic": periodic, "shards": nshards_pick, "key": key}))


@check("C11", "model_checking")
def check_c11(run):
    if run.tier == "quick":
        cells = [(1, 6, False, "morton"), (2, 4, False, "morton"), (3, 3, False, "morton"), (4, 2, False, "morton"),
                 (1, 5, True, "morton"), (2, 4, True, "morton"), (3, 3, True, "morton"), (4, 2, True, "morton"),
                 (3, 3, False, "hilbert"), (3, 4, False, "hilbert")]
    else:
        cells = [(1, 9, False, "morton"), (2, 6, False, "morton"), (3, 4, False, "morton"), (4, 3, False, "morton"),
                 (1, 9, True, "morton"), (2, 6, True, "morton"), (3, 4, True, "morton"), (4, 3, True, "morton"),
                 (3, 2, False, "hilbert"), (3, 3, False, "hilbert"), (3, 4, False, "hilbert"), (3, 4, True, "hilbert")]
    with ThreadPoolExecutor(max_workers=6) as ex:
        results = list(ex.map(lambda c: grid_one(run, *c), cells))
    total_cells = 0
    for name, ncell, summary, viol, sample in results:
        total_cells += ncell
        run.coverage["traces_validated_against_impl"] += ncell
        run.coverage["evaluations"] += summary.get("checks", 0)
        if sample:
            s = dict(sample)
            s["il"] = s["il"][:6]
            run.sample({"config": name, "cell": s})
        for key, text, rp in viol:
            if key.startswith("Shift:"):
                continue        # the periodic shifter belongs to C10
            replay = run.write_replay(key, dict(rp or {}, key=key, text=text)) if rp else None
            run.violation(key, text, replay)
    run.coverage["distinct_nontrivial"] = total_cells
    # deep cells: indices of 40-62 bits
    deep = [(1, 40, False, 1), (1, 62, False, 1), (2, 30, False, 2), (3, 20, False, 64), (4, 15, False, 1), (1, 45, True, 1), (2, 31, True, 2), (3, 20, True, 64)]
    if run.tier == "thorough":
        deep = [(1, 40, False, 1), (1, 62, False, 1), (1, 31, False, 1), (2, 30, False, 1), (2, 31, False, 1), (3, 20, False, 8), (3, 17, False, 8), (4, 15, False, 1),
                (1, 45, True, 1), (1, 62, True, 1), (2, 31, True, 1), (3, 20, True, 8), (4, 15, True, 1)]
    with ThreadPoolExecutor(max_workers=4) as ex:
        list(ex.map(lambda d: grid_deep(run, *d), deep))
    # the Hilbert ordering at deep levels, in coordinate space (round trip and lists; nothing that involves parent / child, known finding F06)
    hdeep = [(3, 11, False, 64), (3, 12, False, 64), (3, 16, False, 64)] if run.tier == "quick" else [(3, 11, False, 8), (3, 12, False, 8), (3, 14, False, 8), (3, 16, False, 8), (3, 18, False, 8), (3, 20, False, 8)]
    with ThreadPoolExecutor(max_workers=3) as ex:
        list(ex.map(lambda d: grid_deep(run, *d, order="hilbert"), hdeep))
    run.coverage["rule"] = ("every cell of every level of each (dimension, height, periodicity, ordering) grid is one case; "
                            "TLC evaluates the Grid axioms on it and prints its parent, child code, interaction and neighbour lists with codes; "
                            "conf_grid compares the library's per-cell and per-group builders (self-inclusion and upper-half filters on and off) with them; "
                            "for the Hilbert ordering the coordinate table is dumped from the library and the axioms are evaluated by TLC on that table")
    run.coverage["exhaustive"] = True
    run.assumptions += ["exhaustive for the bounded heights listed in tlc_runs; deep levels (indices of 40-62 bits) are sampled at limb extremes and carry boundaries by GridDeep.tla, not exhaustively",
                        "TLC's evaluation of Grid.tla is trusted; conf_grid decodes position codes with its own arithmetic"]


# =====================================================================================================
# The Fmm.tla campaigns (C01, C02, C06, C07, C08, C09, C10-inner, C12, C13, C16, C17, C18)
# =====================================================================================================
HIST = {"full": 0, "stages3": 1, "single6": 2, "nearfirst": 3, "farnear": 4, "p2ponly": 5, "uponly": 6, "m2lafterup": 7,
        "rebuild": 8, "move1": 9, "move2": 10, "ptop": 11, "ptopb": 12, "build": 99}
FMM_INVS = ["NoAssertFail", "TreeOKWhenBuilt", "GeometricConsistency", "BatchWithinCapacity", "NothingAboveStopLevel",
            "MultipoleDef", "LocalDef", "RhsDef", "Completes", "ExactlyOnce", "ImagesOnceInner", "CountersEqualElementary",
            "ElementarySetIndependentOfGrouping", "RebuildAddsOneInteraction", "RebuildResets", "ImagesExactlyOnce", "Emit"]
NVARIANTS = 16
# which mismatch kinds of the replay harness belong to which property
KINDS = {
    "C01": ["Digest.mp", "Digest.lo", "Digest.rhs", "ExactlyOnce", "Crash"],
    "C02": ["Arg", "Crash"],
    "C06": ["StoredOnce", "InRightLeaf", "DataBitExact", "ZeroInit", "ExecPreservesSymbolic", "Crash"],
    "C07": ["Groups", "GroupHeader", "LeafGroupsAligned", "Crash"],
    "C08": ["Elem", "Digest.mp", "Digest.lo", "Digest.rhs", "Crash"],
    "C09": ["Digest.mp", "Digest.lo", "Digest.rhs", "ExactlyOnce", "SourcesUntouched", "Elem", "Arg", "Groups", "Crash"],
    "C10": ["Digest.mp", "Digest.lo", "Digest.rhs", "Elem", "Arg", "Shift", "IntervalMatchesApi", "WriteSets", "Crash"],
    "C12": ["WriteSets", "NothingAboveStopLevel", "Digest.mp", "Digest.lo", "Digest.rhs", "Crash"],
    "C13": ["RebuildPreserves", "Groups", "GroupHeader", "LeafGroupsAligned", "StoredOnce", "InRightLeaf", "DataBitExact", "ZeroInit",
            "Digest.mp", "Digest.lo", "Digest.rhs", "Crash"],
    "C14": ["ViewEquiv", "Crash", "Sanitizer"],
    "C16": ["Find", "Crash"],
    "C17": ["Export", "Crash"],
    "C18": ["Counters", "WrapperPreservesResults", "Arg", "Crash"],      # (Arg: the executor runs the counter wrapper around the bag kernel, whose per-callback checks see what the wrapper forwards)
}


def fmm_record(r, pool, variant):
    v = [variant, 1 if r["mode"] == "tsm" else 0, r["dim"], r["height"], int(r["periodic"])]
    v += [len(r["sparts"])] + list(r["sparts"]) + [len(r["tparts"])] + list(r["tparts"]) + [len(pool)] + sorted(pool)
    v += [r["bs"], int(r["ogpp"]), r["stop"], HIST[r["hist"]]]
    for G in (r["sgroups"], r["tgroups"], r.get("fsgroups", r["sgroups"]), r.get("ftgroups", r["tgroups"])):
        for lvl in G:
            v.append(len(lvl))
            for g in lvl:
                v += [len(g)] + list(g)
    if "mpd" not in r:       # build-only scenarios of BlockTreeMC.tla carry no expansion state
        v += [0] * (6 * r["height"] + 2 + 7 + 3) + [-1, -1, 1]
        return " ".join(map(str, v))
    for D in (r["mpd"], r["lod"]):
        for row in D:
            v += list(row)
    v += list(r["rhsd"]) + list(r["cnt"]) + [r["elem"], r["nelem"], 0 if r["bad"] == "" else 1]
    v += [r.get("above", -1), r.get("ilo", -1), r.get("ihi", 1)]
    return " ".join(map(str, v))


def fmm_constants(dim, height, pool, periodic=False, mode="single", maxper=1, maxparts=None, bss=(1, 2, 3, 20), gmodes=(False, True),
                  stops=(2,), hists=("full",), aboves=(-1,)):
    return dict(Dim=dim, Height=height, Periodic=periodic, Mode=mode, Pool=set(pool), MaxPerLeaf=maxper,
                MaxParts=maxparts if maxparts is not None else len(pool) * maxper, BlockSizes=set(bss),
                GroupModes="{" + ", ".join("TRUE" if g else "FALSE" for g in gmodes) + "}", StopLevels=set(stops),
                Histories="{" + ", ".join('"%s"' % h for h in hists) + "}", AboveLevelsP1=set(a + 1 for a in aboves), EmitJson=True, Shard=0, NbShards=1)


def tlc_sharded(module, consts, invs, props, nshards, workers_each, timeout, tag, spec="Spec", simulate=None):
    """Run nshards TLC processes on disjoint shards of the scenario space (constants Shard / NbShards) and merge the results.
    TLC computes initial states in one thread, so scenario-per-initial-state specifications scale by processes, not workers."""
    def one(i):
        c = dict(consts)
        c["Shard"], c["NbShards"] = i, nshards
        return run_tlc(module, cfg(spec, c, invs, props), workers=workers_each, timeout=timeout, tag="%s-s%d" % (tag, i), heap="2500m" if nshards > 8 else "3g", simulate=simulate)
    if nshards == 1:
        return one(0)
    with ThreadPoolExecutor(max_workers=nshards) as ex:
        parts = list(ex.map(one, range(nshards)))
    res = parts[0]
    for p in parts[1:]:
        res.generated += p.generated
        res.distinct += p.distinct
        res.lines += p.lines
        res.wall = max(res.wall, p.wall)
        res.ok = res.ok and p.ok
        res.violated = res.violated or p.violated
        res.error = res.error or p.error
    return res


def fmm_campaign(run, name, consts, workers=1, timeout=1500, variant="plain", cap=64, module="Fmm", shards=8, tsmwrap=0):
    """TLC explores every scenario of the configuration (checking the invariants of Fmm.tla in every state) and prints one line
    per finished scenario; the scenarios are replayed on the real classes by replay_fmm.  Returns (scenario lines, mismatches)."""
    if module == "Fmm":
        res = tlc_sharded("Fmm", consts, FMM_INVS, ["WriteSets"], shards, workers, timeout, name)
    else:
        res = tlc_sharded(module, consts, ["TreeOK", "LookupOK", "GroupsShrinkUpwards", "FullButLast", "Emit"], [], shards, workers, timeout, name)
    run.add_tlc(name, res, note="%s Dim=%s Height=%s Periodic=%s Mode=%s pool=%d maxPerLeaf=%s bs=%s stops=%s hists=%s shards=%d" % (
        module, consts["Dim"], consts["Height"], consts["Periodic"], consts.get("Mode", "single"), len(consts["Pool"]), consts["MaxPerLeaf"],
        sorted(consts["BlockSizes"]), sorted(consts.get("StopLevels", [])), consts.get("Histories", ""), shards))
    if res.violated:
        run.machinery_errors.append("TLC: %s of spec/%s.tla is violated in configuration %s: the specification itself is inconsistent (log %s)" % (res.violated, module, name, res.logpath))
        return [], []
    scn = [r for r in res.lines if r.get("k") == "scn"]
    binp = need(build("replay_fmm_%d_%d_%d%s%s" % (consts["Dim"], int(consts["Periodic"]), cap, "_asan" if variant == "asan" else "", ("_tsmwrap%d" % tsmwrap) if tsmwrap else ""), "replay_fmm.cpp",
                      ["DIMV=%d" % consts["Dim"], "PERIODICV=%d" % int(consts["Periodic"]), "CAPV=%d" % cap] + (["TSMWRAPV=%d" % tsmwrap] if tsmwrap else []), variant=variant), run)
    _replay_info[name] = {"kind": "fmm", "cap": cap, "variant": variant, "tsmwrap": tsmwrap}
    pool = sorted(consts["Pool"])
    recs = [fmm_record(r, pool, (i + run.seed) % NVARIANTS) for i, r in enumerate(scn)]
    nchunks = max(1, min(vlib.NCPU, len(recs) // 200))
    chunks = [recs[i::nchunks] for i in range(nchunks)]
    mism, checks = [], 0
    with ThreadPoolExecutor(max_workers=nchunks) as ex:
        outs = list(ex.map(lambda ch: run_bin(binp, [], stdin_text="\n".join(ch) + "\n", timeout=timeout), chunks))
    for (rc, out, err), ch in zip(outs, chunks):
        m, summary = parse_harness_output(out)
        if summary is None or rc not in (0, 1, 3):
            if rc in (98, 99) or "Sanitizer" in err or "runtime error" in err:
                m.append(("Sanitizer", name, (err.strip().splitlines() or ["sanitizer report"])[0][:300]))
            else:
                raise vlib.HarnessError("replay_fmm failed in %s (exit %s): %s" % (name, rc, (err or out)[-400:]))
        else:
            checks += summary.get("checks", 0)
        mism += m
    run.add_harness(name, {"scenarios": len(recs), "checks": checks, "mismatches": len(mism)}, 0)
    run.coverage["traces_validated_against_impl"] += len(recs)
    run.coverage["evaluations"] += len(recs)
    run.coverage["distinct_nontrivial"] += sum(1 for r in scn if len(set(r["sparts"])) >= 2 and max(len(l) for l in r["sgroups"]) >= 2)
    if scn:
        r = scn[len(scn) // 2]
        run.sample({"config": name, "scenario": {k: r[k] for k in ("mode", "dim", "height", "periodic", "sparts", "tparts", "bs", "ogpp", "stop", "hist", "sgroups", "rhsd", "cnt", "elem") if k in r}})
    return list(zip(scn, recs)), mism


_replay_info = {}       # campaign name -> how to re-execute one of its scenarios (which harness binary, with which build options)


def report_mismatches(run, pid, name, pairs, mism, kinds=None):
    kinds = KINDS[pid] if kinds is None else kinds
    info = _replay_info.get(name, {"kind": "fmm"})
    byrec = {}
    for kind, key, text in mism:
        if kind not in kinds and kind != "Sanitizer":
            continue
        base = re.sub(r"-(src|tgt|final)$", "", key)
        if (kind, base) in byrec:
            continue
        byrec[(kind, base)] = 1
        rec = None
        for r, line in pairs:
            if scenario_key(r, line) == base:
                rec = line
                break
        obj = {"config": name, "record": rec, "mismatch": kind, "text": text,
               "dim": pairs[0][0]["dim"] if pairs else None, "periodic": pairs[0][0]["periodic"] if pairs else None}
        obj.update(info)
        if info.get("kind") == "realkern" and rec is not None:      # the comparison needs every grouping of the occupancy
            occ = rec.split(" ")
            obj["records"] = [l for _, l in pairs if l.split(" ")[5:5 + 1 + int(l.split(" ")[5])] == occ[5:5 + 1 + int(occ[5])]]
        replay = run.write_replay(kind + "-" + base, obj)
        run.violation(kind + ":" + base, text, replay)


def scenario_key(r, line):
    variant = line.split(" ", 1)[0]
    k = "d%dh%d%s%s-S[%s]" % (r["dim"], r["height"], "p" if r["periodic"] else "", "-tsm" if r["mode"] == "tsm" else "", ",".join(map(str, r["sparts"])))
    if r["mode"] == "tsm":
        k += "-T[%s]" % ",".join(map(str, r["tparts"]))
    k += "-bs%d-og%d-st%d-hi%d" % (r["bs"], int(r["ogpp"]), r["stop"], HIST[r["hist"]])
    if r["hist"] in ("ptop", "ptopb"):
        k += "-ab%d" % r["above"]
    return k + "-v%s" % variant


POOL_1D_H5 = [0, 1, 2, 5, 6, 7, 8, 11, 14, 15]          # 10 of the 16 leaves of the 1-D height-5 tree
POOL_1D_H6 = [0, 1, 3, 12, 15, 16, 17, 30, 31]
POOL_2D_H4 = [0, 3, 5, 12, 17, 30, 33, 48, 51, 63]      # 10 of the 64 leaves of the 2-D height-4 tree
POOL_2D_H3 = list(range(16))
POOL_3D_H3 = [0, 7, 9, 27, 36, 56, 62, 63]              # 8 of the 64 leaves of the 3-D height-3 tree
POOL_3D_H4 = [0, 7, 64, 73, 292, 438, 504, 511]
POOL_4D_H3 = [0, 1, 17, 85, 170, 240, 255]              # (0 and 1 differ in the last coordinate only, 0 and 17 diagonally)


def std_configs(tier, hists=("full",), stops=(2,), bss=(1, 2, 3, 20), small=False):
    """The standard family of configurations shared by several properties (dimension 1-4)."""
    if tier == "quick":
        cs = [("1d-h5", fmm_constants(1, 5, POOL_1D_H5[:8 if small else 10], bss=bss, stops=stops, hists=hists)),
              ("2d-h4", fmm_constants(2, 4, POOL_2D_H4[:6 if small else 8], bss=bss, stops=stops, hists=hists)),
              ("3d-h3", fmm_constants(3, 3, POOL_3D_H3[:5 if small else 6], bss=bss, stops=stops, hists=hists)),
              ("4d-h3", fmm_constants(4, 3, POOL_4D_H3[:4], bss=bss, stops=stops, hists=hists))]
    else:
        cs = [("1d-h5", fmm_constants(1, 5, list(range(16))[:10], bss=bss + (5,), stops=stops, hists=hists)),
              ("1d-h6", fmm_constants(1, 6, POOL_1D_H6, bss=bss, stops=stops, hists=hists)),
              ("2d-h4", fmm_constants(2, 4, POOL_2D_H4, bss=bss, stops=stops, hists=hists)),
              ("2d-h3", fmm_constants(2, 3, POOL_2D_H3[:10], bss=bss, stops=stops, hists=hists)),
              ("3d-h3", fmm_constants(3, 3, POOL_3D_H3, bss=bss, stops=stops, hists=hists)),
              ("3d-h4", fmm_constants(3, 4, POOL_3D_H4[:7], bss=bss, stops=stops, hists=hists)),
              ("4d-h3", fmm_constants(4, 3, POOL_4D_H3, bss=bss, stops=stops, hists=hists))]
    return cs


def tree_constants(dim, height, pool, periodic=False, maxper=1, maxparts=None, bss=(1, 2, 3, 5, 20), gmodes=(False, True), emit_every=1):
    return dict(Dim=dim, Height=height, Periodic=periodic, Pool=set(pool), MaxPerLeaf=maxper,
                MaxParts=maxparts if maxparts is not None else len(pool) * maxper, BlockSizes=set(bss),
                GroupModes="{" + ", ".join("TRUE" if g else "FALSE" for g in gmodes) + "}", EmitEvery=emit_every, Shard=0, NbShards=1)


def run_fmm_configs(run, pid, configs, kinds=None, workers=1, parallel=2, cap=64, module="Fmm", shards=8):
    allpairs = []
    if run.tier == "thorough":
        shards, parallel = 16, 1
    def one(c):
        name, consts = c
        return name, fmm_campaign(run, pid + "-" + name, consts, workers=workers, cap=cap, module=module, shards=shards, timeout=1500 if run.tier == "quick" else 5000)
    with ThreadPoolExecutor(max_workers=parallel) as ex:
        results = list(ex.map(one, configs))
    for name, (pairs, mism) in results:
        report_mismatches(run, pid, pid + "-" + name, pairs, mism, kinds)
        allpairs += pairs
    return allpairs


FMM_ASSUME = ["bounded grids/pools as listed in tlc_runs (exhaustive over every occupancy pattern of the pool, block size, grouping mode within the bound)",
              "digests (per level: number of cells, sum of multiplicities, weighted sum) stand for the full bag state; the closed-form exactly-once check on the real buffers is independent of them",
              "particle positions are synthesised from leaf coordinates in 16 variants (2 boxes x 4 placement classes x 2 insertion orders), dyadic so that binning is exact"]
FMM_RULE = ("one case = one (occupancy pattern, block size, grouping mode, stop level, history) explored by TLC to completion with every invariant of "
            "spec/Fmm.tla evaluated in every state, then replayed on the real TbfTree/TbfAlgorithm with the bag kernel; non-trivial = at least two occupied "
            "leaves and at least two groups at some level")


def tree_configs(tier):
    if tier == "quick":
        return [("tree-1d-h5", tree_constants(1, 5, range(12))), ("tree-2d-h3", tree_constants(2, 3, range(11))),
                ("tree-2d-h4", tree_constants(2, 4, POOL_2D_H4)), ("tree-3d-h3", tree_constants(3, 3, POOL_3D_H3)),
                ("tree-1d-h4-multi", tree_constants(1, 4, range(6), maxper=2, bss=(1, 2, 3, 4, 7))),
                ("tree-3d-h3-multi", tree_constants(3, 3, POOL_3D_H3[:5], maxper=2, bss=(1, 4)))]
    return [("tree-3d-h3-multi", tree_constants(3, 3, POOL_3D_H3[:6], maxper=2, bss=(1, 4, 20))), ("tree-2d-h3-multi", tree_constants(2, 3, range(9), maxper=2, maxparts=12, bss=(8, 3))),
            ("tree-1d-h5", tree_constants(1, 5, range(16), bss=(1, 2, 3, 4, 5, 7, 16, 17), emit_every=7)),
            ("tree-2d-h3", tree_constants(2, 3, range(16), bss=(1, 2, 3, 5, 16, 17), emit_every=7)),
            ("tree-1d-h6", tree_constants(1, 6, POOL_1D_H6 + [7, 20, 21, 24])), ("tree-2d-h4", tree_constants(2, 4, POOL_2D_H4 + [1, 2, 62])),
            ("tree-3d-h3", tree_constants(3, 3, POOL_3D_H3 + [1, 8, 57, 60])), ("tree-3d-h4", tree_constants(3, 4, POOL_3D_H4 + [1, 8, 448])),
            ("tree-4d-h3", tree_constants(4, 3, POOL_4D_H3 + [1, 16, 254])),
            ("tree-1d-h4-multi", tree_constants(1, 4, range(8), maxper=2, bss=(1, 2, 3, 7, 20)))]


TREE_RULE = ("one case = one (occupancy pattern, block size, grouping mode): a state of spec/BlockTreeMC.tla on which TLC evaluates the structural "
             "invariants and the lookup specification; emitted cases are rebuilt with the real TbfTree and compared group by group, header by header, "
             "and (C16) index by index; non-trivial = at least two occupied leaves and two groups at some level")


@check("C07", "model_checking")
def check_c07(run):
    run_fmm_configs(run, "C07", tree_configs(run.tier), module="BlockTreeMC", shards=8, workers=1, parallel=2)
    # trees after rebuild (moves that empty / create leaves and change the number of groups)
    run_fmm_configs(run, "C07", [("rebuild-1d-h5", fmm_constants(1, 5, POOL_1D_H5[:6], bss=(1, 2, 3), hists=("move1", "move2"))),
                                 ("rebuild-2d-h4", fmm_constants(2, 4, POOL_2D_H4[:5], bss=(1, 2, 3), hists=("move1", "move2")))])
    # both trees of the target/source variant
    run_fmm_configs(run, "C07", [("tsm-1d-h4", fmm_constants(1, 4, range(5), mode="tsm", bss=(1, 2, 3)))])
    # code -> spec: group structures of large random trees (after construction and after moves + rebuild) validated by TLC (FmmTrace!TTree)
    trace_campaign(run, "C07", run.tier, modes=(0, 1), events=1 | 4)
    run.coverage["rule"] = TREE_RULE
    run.coverage["exhaustive"] = True
    run.assumptions += FMM_ASSUME[:1] + FMM_ASSUME[2:]


@check("C16", "model_checking")
def check_c16(run):
    run_fmm_configs(run, "C16", tree_configs(run.tier), module="BlockTreeMC", shards=8, workers=1, parallel=2)
    run_fmm_configs(run, "C16", [("tsm-1d-h4", fmm_constants(1, 4, range(5), mode="tsm", bss=(1, 2, 3))),
                                 ("rebuild-1d-h5", fmm_constants(1, 5, POOL_1D_H5[:6], bss=(1, 2, 3), hists=("move1",)))])
    # code -> spec: look-ups recorded on large random trees (present cells, their successors, random and out-of-range indices) validated by TLC (FmmTrace!TFind)
    trace_campaign(run, "C16", run.tier, modes=(0, 1), events=1 | 2 | 4)
    run.coverage["rule"] = TREE_RULE + "; every index from -1 to the upper bound of every level is looked up (sampled above 4096 indices per level, always including every present index and its two neighbours)"
    run.coverage["exhaustive"] = True
    run.assumptions += FMM_ASSUME[:1] + FMM_ASSUME[2:]


@check("C06", "model_checking")
def check_c06(run):
    # coordinate type != data type, other orderings, target/source trees (construction and rebuild)
    matrix_run(run, REBUILD_CELLS + [dict(DIMV=3, REAL_T="double", DATA_T="float", ORDERV=0, AUTOBS=1, REBUILDV=0, EXECV=2)], 30 if run.tier == "quick" else 150, ["DataBitExact", "StoredOnce", "InRightLeaf"])
    run_fmm_configs(run, "C06", tree_configs(run.tier), module="BlockTreeMC", shards=8, workers=1, parallel=2)
    # execution never alters symbolic data: all histories, all executors covered by the Fmm campaigns
    run_fmm_configs(run, "C06", std_configs(run.tier, hists=("full", "stages3"), small=True)
                    + [("tsm-1d-h4", fmm_constants(1, 4, range(5), mode="tsm", bss=(1, 2, 3)))])
    run.coverage["rule"] = TREE_RULE + "; after construction every input particle is stored once, in the leaf of its position, with bit-identical data, results and expansions all-zero bytes; a byte hash of all symbolic buffers is compared before/after every execute()"
    run.coverage["exhaustive"] = True
    run.assumptions += FMM_ASSUME


@check("C17", "model_checking")
def check_c17(run):
    matrix_run(run, REBUILD_CELLS[:3] + [dict(DIMV=2, REAL_T="double", DATA_T="float", ORDERV=0, AUTOBS=0, REBUILDV=0, EXECV=0),
                                         dict(DIMV=3, REAL_T="float", DATA_T="double", ORDERV=0, AUTOBS=0, REBUILDV=1, EXECV=2)], 30 if run.tier == "quick" else 150, ["Export"])
    run_fmm_configs(run, "C17", tree_configs(run.tier)[:3], module="BlockTreeMC", shards=8, workers=1, parallel=2)
    run_fmm_configs(run, "C17", std_configs(run.tier, hists=("full", "move1"), small=True)
                    + [("tsm-1d-h4", fmm_constants(1, 4, range(5), mode="tsm", bss=(1, 2, 3)))])
    run.coverage["rule"] = TREE_RULE + "; getAllParticlesData/Rhs are compared entry by entry with the input registry / the result bag found through the leaf accessors, before execution, after execution and after rebuild"
    run.assumptions += FMM_ASSUME


@check("C02", "model_checking")
def check_c02(run):
    # every kernel callback of every scenario is checked against the registry of true identities (kind Arg)
    cs = std_configs(run.tier, hists=("full", "nearfirst"), stops=(0, 2) if run.tier == "quick" else (0, 1, 2, 3), small=True)
    cs.append(("1d-h5-multi", fmm_constants(1, 5, POOL_1D_H5[:5], maxper=2, bss=(1, 2, 20))))
    cs.append(("1d-h5-per", fmm_constants(1, 5, POOL_1D_H5[:6], periodic=True, stops=(1,), bss=(1, 2, 20))))
    cs.append(("2d-h3-per", fmm_constants(2, 3, [0, 3, 5, 10, 15], periodic=True, stops=(1,), bss=(1, 2, 20))))
    cs.append(("tsm-1d-h4", fmm_constants(1, 4, range(5), mode="tsm", bss=(1, 2, 3))))
    # target/source calls in the other dimensions (self interaction code, one-sided lists) and with wrapped lists
    cs.append(("tsm-2d-h3", fmm_constants(2, 3, [0, 3, 9, 15], mode="tsm", maxparts=3, bss=(1, 2))))
    cs.append(("tsm-3d-h3", fmm_constants(3, 3, POOL_3D_H3[:3], mode="tsm", bss=(1, 2))))
    cs.append(("tsm-4d-h3", fmm_constants(4, 3, POOL_4D_H3[:3], mode="tsm", maxparts=2, bss=(1, 2))))
    cs.append(("tsm-2d-h3-per", fmm_constants(2, 3, [0, 3, 15], mode="tsm", periodic=True, stops=(1,), maxparts=2, bss=(1, 2))))
    run_fmm_configs(run, "C02", cs, cap=256)
    # the arguments handed to the kernels by the task executors when tasks run late (level, codes, groups captured at creation vs read at run time)
    for name, consts in [("omp-1d-h5", fmm_constants(1, 5, POOL_1D_H5[:6], bss=(1, 2, 20))), ("omp-tsm-1d-h5", fmm_constants(1, 5, POOL_1D_H5[:4], mode="tsm", bss=(1, 2, 20))),
                         ("omp-2d-h4", fmm_constants(2, 4, POOL_2D_H4[:5], bss=(1, 20)))]:
        opairs, mism, _ = omp_campaign(run, "C02-" + name, consts, run.tier, graphs=0)
        report_mismatches(run, "C02", "C02-" + name, opairs, [(k, re.sub(r"-(immediate|deferred|tlc)-.*$", "", key), "%s [%s]" % (t, key)) for k, key, t in mism], ["Arg", "Crash"])
    trace_campaign(run, "C02", run.tier, modes=(0, 1), events=4)
    run.coverage["rule"] = FMM_RULE + "; every operator call made by the library is checked: particles inside the leaf box with original index and data, children distinct children of the parent with true octant codes, sources at the encoded offset (modulo the box when periodic), well separated / adjacent, at the stated level, never an empty list"
    run.coverage["exhaustive"] = True
    run.assumptions += FMM_ASSUME + ["OpenMP executors are covered by C03's check; Hilbert ordering only by C11 (known finding)"]


def realkernel_stage(run, pid, kinds):
    """The shipped floating-point kernels (FRotationKernel P=6, FUnifKernel order 4) on TLC's 3-D scenarios: results equal to rounding over all
    groupings of one occupancy (C08) and between the sequential executor and the OpenMP executor under deferred mock schedules (C03)."""
    q = run.tier == "quick"
    cfgs = [("real-3d-h3", fmm_constants(3, 3, POOL_3D_H3[:5 if q else 7], bss=(1, 2, 3, 20), stops=(2,) if q else (1, 2))),
            ("real-3d-h4", fmm_constants(3, 4, POOL_3D_H4[:4 if q else 6], bss=(1, 2, 5, 20)))]
    if not q:
        cfgs.append(("real-3d-h3-multi", fmm_constants(3, 3, POOL_3D_H3[:4], maxper=2, bss=(1, 2, 20))))
    binp = need(build("realkern", "realkern.cpp", ["DIMV=3", "PERIODICV=0", "CAPV=64"], extra=("-lfftw3", "-lfftw3f")), run)
    for name, consts in cfgs:
        memo_key = json.dumps({k: (sorted(v) if isinstance(v, (set, frozenset)) else v) for k, v in consts.items()}, sort_keys=True)
        with _scn_memo_lock:
            res = _scn_memo.get((id(run), memo_key))
        if res is None:
            res = tlc_sharded("Fmm", consts, FMM_INVS, ["WriteSets"], 8, 1, 1500, pid + "-" + name)
            run.add_tlc(pid + "-" + name, res, note="scenario generation for the floating-point kernels: Dim=3 Height=%s pool=%d bs=%s" % (consts["Height"], len(consts["Pool"]), sorted(consts["BlockSizes"])))
            with _scn_memo_lock:
                _scn_memo[(id(run), memo_key)] = res
        if res.violated:
            run.machinery_errors.append("TLC: %s violated in %s (log %s)" % (res.violated, name, res.logpath))
            continue
        scn = [r for r in res.lines if r.get("k") == "scn"]
        pool = sorted(consts["Pool"])
        byocc = {}
        for i, r in enumerate(scn):
            byocc.setdefault((tuple(r["sparts"]), r["stop"]), []).append(fmm_record(r, pool, len(byocc) % 2))       # one box per occupancy
        occs = list(byocc.values())
        nchunks = max(1, min(vlib.NCPU, len(occs) // 8))
        chunks = [[rec for o in occs[i::nchunks] for rec in o] for i in range(nchunks)]
        with ThreadPoolExecutor(max_workers=nchunks) as ex:
            outs = list(ex.map(lambda ch: run_bin(binp, [], stdin_text="\n".join(ch) + "\n", timeout=1500), chunks))
        mism, checks = [], 0
        for rc, out, err in outs:
            m, summary = parse_harness_output(out)
            if summary is None or rc not in (0, 1, 3) or "HARNESS-ERROR" in out + err:
                raise vlib.HarnessError("realkern failed in %s (exit %s): %s" % (name, rc, (err or out)[-400:]))
            checks += summary.get("checks", 0)
            mism += m
        run.add_harness(pid + "-" + name, {"scenarios": len(scn), "occupancies": len(occs), "checks": checks, "mismatches": len(mism)}, 0)
        run.coverage["traces_validated_against_impl"] += len(scn)
        run.coverage["evaluations"] += checks
        recs = [rec for o in occs for rec in o]
        _replay_info[pid + "-" + name] = {"kind": "realkern"}
        report_mismatches(run, pid, pid + "-" + name, list(zip(scn, recs)), [(k, re.sub(r"-(lifo|random)-\d+$", "", key), "%s [%s]" % (t, key)) for k, key, t in mism], kinds)


@check("C08", "model_checking")
def check_c08(run):
    # the automatic block size (and TBFMM_BLOCK_SIZE) must behave like an explicit one: counting-kernel cells of the configuration matrix
    matrix_run(run, [dict(DIMV=d, REAL_T="double", ORDERV=0, AUTOBS=1, REBUILDV=0, EXECV=e) for d, e in ((1, 0), (2, 1), (3, 0), (3, 2))], 30 if run.tier == "quick" else 150,
               ["AutoBlockSize", "ExactlyOnce", "StoredOnce"])
    bss = (1, 2, 3, 4, 5, 7, 11, 20) if run.tier == "quick" else (1, 2, 3, 4, 5, 6, 7, 8, 9, 11, 13, 20, 1000)
    cs = std_configs(run.tier, bss=bss, small=True)
    pairs = run_fmm_configs(run, "C08", cs)
    # groupings of the other modes: target/source trees, periodic in-box lists, and the periodic top tree (whose upward pass gathers the level-1 cells
    # across the level-1 groups)
    q = run.tier == "quick"
    pairs += run_fmm_configs(run, "C08", [("tsm-1d-h4", fmm_constants(1, 4, range(5), mode="tsm", bss=(1, 2, 3, 5, 20))),
                                          ("per-1d-h4", fmm_constants(1, 4, [0, 1, 3, 4, 7], periodic=True, stops=(1,), bss=(1, 2, 3, 5, 20)))])
    pairs += run_fmm_configs(run, "C08", [("per-1d-h3-top", fmm_constants(1, 3, range(4), periodic=True, maxparts=3, stops=(1,), bss=(1, 2, 3, 20), hists=("ptop",), aboves=(0, 1) if q else (0, 1, 2))),
                                          ("per-2d-h2-top", fmm_constants(2, 2, range(4), periodic=True, maxparts=2 if q else 3, stops=(1,), bss=(1, 2, 3, 20), hists=("ptop",), aboves=(0,) if q else (0, 1))),
                                          ("per-2d-h3-top", fmm_constants(2, 3, [0, 5, 10, 15], periodic=True, maxparts=2, stops=(1,), bss=(1, 2, 3, 20), hists=("ptop",), aboves=(0,)))], cap=1024)
    # "equal to rounding for floating-point kernels": the shipped rotation and uniform kernels over all groupings of TLC's 3-D occupancies
    realkernel_stage(run, "C08", ["GroupingIndependent", "Crash"])
    # the state digests, the elementary-interaction digest and the counters must be identical for all groupings of one occupancy
    groups = {}
    for r, line in pairs:
        key = (r["dim"], r["height"], r["mode"], r["periodic"], tuple(r["sparts"]), tuple(r["tparts"]), r["stop"], r["hist"], r["above"])
        sig = json.dumps([r["mpd"], r["lod"], r["rhsd"], r["elem"], r["nelem"], r["cnt"]])
        groups.setdefault(key, {}).setdefault(sig, []).append((r["bs"], r["ogpp"]))
    for key, sigs in groups.items():
        if len(sigs) > 1:
            run.machinery_errors.append("model: results depend on the grouping for occupancy %s: %s" % (key, list(sigs.values())[:2]))
    run.coverage["groupings_per_occupancy"] = max((sum(len(v) for v in sigs.values()) for sigs in groups.values()), default=0)
    run.coverage["rule"] = FMM_RULE + "; for every occupancy all block sizes x both grouping modes must give the same multiset of elementary interactions (digest and count recorded from the kernel callbacks) and bit-identical bag state as the grouping-free definition in the specification"
    run.coverage["exhaustive"] = True
    run.assumptions += FMM_ASSUME + ["the automatic block size and TBFMM_BLOCK_SIZE are exercised with a counting kernel (matrix cells), not with the bag kernel"]


@check("C12", "model_checking")
def check_c12(run):
    hists = ("full", "stages3", "single6", "nearfirst", "farnear", "p2ponly", "uponly", "m2lafterup")
    if run.tier == "quick":
        cs = [("1d-h5", fmm_constants(1, 5, POOL_1D_H5[:6], bss=(1, 2, 20), stops=(0, 1, 2, 3, 4, 5), hists=hists)),
              ("2d-h4", fmm_constants(2, 4, POOL_2D_H4[:5], bss=(2, 20), stops=(0, 2, 3, 4), hists=hists)),
              ("3d-h3", fmm_constants(3, 3, POOL_3D_H3[:4], bss=(2,), stops=(0, 2, 3), hists=hists)),
              ("tsm-1d-h4", fmm_constants(1, 4, [0, 5, 7], mode="tsm", maxparts=2, bss=(1, 2), stops=(0, 2, 3, 4), hists=hists))]
    else:
        cs = [("1d-h5", fmm_constants(1, 5, POOL_1D_H5[:8], bss=(1, 2, 3, 20), stops=(0, 1, 2, 3, 4, 5), hists=hists)),
              ("2d-h4", fmm_constants(2, 4, POOL_2D_H4[:7], bss=(1, 2, 20), stops=(0, 1, 2, 3, 4), hists=hists)),
              ("3d-h3", fmm_constants(3, 3, POOL_3D_H3[:6], bss=(1, 2, 20), stops=(0, 1, 2, 3), hists=hists)),
              ("tsm-1d-h4", fmm_constants(1, 4, range(4), mode="tsm", bss=(1, 2), stops=(0, 2, 4), hists=hists))]
    pairs = run_fmm_configs(run, "C12", cs)
    # code -> spec: staged executes recorded on large random trees: every call of every stage must be an enabled batch, nothing pending at the end
    trace_campaign(run, "C12", run.tier, modes=(0, 1), events=4)
    # the flag chain and the upper working level of the OpenMP executors (sequential = reference), staged histories, under the mock-runtime schedules
    for name, consts in OMP_STOPS:
        opairs, mism, _ = omp_campaign(run, "C12-" + name, consts, run.tier, graphs=0)
        report_mismatches(run, "C12", "C12-" + name, opairs, [(k, re.sub(r"-(immediate|deferred|tlc)-.*$", "", key), "%s [%s]" % (t, key)) for k, key, t in mism],
                          ["SameAsSequential", "Crash"])
    # staged histories must end in the state of the single full run (model side: compare the digests TLC printed)
    byocc = {}
    for r, line in pairs:
        if r["hist"] in ("full", "stages3", "single6", "nearfirst", "farnear"):
            byocc.setdefault((r["dim"], r["height"], tuple(r["sparts"]), tuple(r["tparts"]), r["bs"], r["ogpp"], r["stop"]), {})[r["hist"]] = json.dumps([r["mpd"], r["lod"], r["rhsd"]])
    for key, d in byocc.items():
        if len(set(d.values())) > 1:
            run.machinery_errors.append("model: staged histories differ from the full run for %s" % (key,))
    run.coverage["rule"] = FMM_RULE + "; histories: the full run, the documented three-stage split, six single-flag calls, near-first and far/near orders (all must end in the same state), and partial runs (near field only, upward only, upward then transfer); the WriteSets action property and NothingAboveStopLevel are checked by TLC on every step, and on the real buffers by byte hashes of the multipole / local / result families before and after every execute()"
    run.coverage["exhaustive"] = True
    run.assumptions += FMM_ASSUME + ["further OpenMP executor histories are covered by C03"]


@check("C13", "model_checking")
def check_c13(run):
    # rebuild with other coordinate / data / result types, orderings and target/source trees (counting kernel with two heavy result values)
    matrix_run(run, REBUILD_CELLS, 30 if run.tier == "quick" else 150, ["ExactlyOnce", "DataBitExact", "StoredOnce", "InRightLeaf", "RebuildResets"])
    hists = ("rebuild", "move1", "move2")
    if run.tier == "quick":
        cs = [("1d-h5", fmm_constants(1, 5, POOL_1D_H5[:7], bss=(1, 2, 3, 20), hists=hists)),
              ("2d-h4", fmm_constants(2, 4, POOL_2D_H4[:6], bss=(1, 2, 20), hists=hists)),
              ("3d-h3", fmm_constants(3, 3, POOL_3D_H3[:5], bss=(1, 2), hists=hists)),
              ("1d-h4-multi", fmm_constants(1, 4, range(4), maxper=2, bss=(1, 2), hists=hists)),
              ("tsm-1d-h5", fmm_constants(1, 5, POOL_1D_H5[3:7], mode="tsm", bss=(1, 2, 20), hists=hists)),
              ("tsm-2d-h3", fmm_constants(2, 3, [0, 3, 9, 15], mode="tsm", maxparts=2, bss=(1, 2), hists=hists))]
    else:
        cs = [("1d-h5", fmm_constants(1, 5, POOL_1D_H5[:9], bss=(1, 2, 3, 20), hists=hists)),
              ("2d-h4", fmm_constants(2, 4, POOL_2D_H4[:8], bss=(1, 2, 3, 20), hists=hists)),
              ("3d-h3", fmm_constants(3, 3, POOL_3D_H3[:7], bss=(1, 2, 20), hists=hists)),
              ("4d-h3", fmm_constants(4, 3, POOL_4D_H3[:5], bss=(1, 2), hists=hists)),
              ("1d-h4-multi", fmm_constants(1, 4, range(6), maxper=2, bss=(1, 2, 3), hists=hists)),
              ("tsm-1d-h5", fmm_constants(1, 5, POOL_1D_H5[2:8], mode="tsm", bss=(1, 2, 3, 20), hists=hists)),
              ("tsm-2d-h3", fmm_constants(2, 3, [0, 3, 6, 9, 15], mode="tsm", maxparts=3, bss=(1, 2, 20), hists=hists)),
              ("tsm-3d-h3", fmm_constants(3, 3, POOL_3D_H3[:4], mode="tsm", maxparts=2, bss=(1, 2), hists=hists))]
    run_fmm_configs(run, "C13", cs)
    # code -> spec: sessions with in-place moves of 1-3 particles (to random leaves or onto other particles' leaves), rebuild and a second pass on large random trees
    trace_campaign(run, "C13", run.tier, modes=(0, 1), events=1 | 4)
    run.coverage["rule"] = FMM_RULE + "; histories: execute / rebuild / execute (results must hold exactly two full interactions), and moves of one or two particles to the next pool leaf (emptying and creating leaves, changing the number of groups) followed by rebuild and execute, twice; after every rebuild the real tree must equal the fresh build TLC computed from the edited particles, keep index, data and results bit-exactly and have zeroed expansions"
    run.coverage["exhaustive"] = True
    run.assumptions += FMM_ASSUME + ["target/source trees: the moved particle is a target, TbfTreeTsm::rebuild() re-bins both trees; rebuild of periodic and Hilbert trees is compiled and run by C19's matrix"]


@check("C18", "model_checking")
def check_c18(run):
    cs = std_configs(run.tier, hists=("full", "stages3", "uponly", "m2lafterup", "p2ponly"), stops=(0, 2, 3) if run.tier == "quick" else (2, 3), small=True)
    if run.tier != "quick":      # (the thorough product of 7 configurations x 5 histories x 3 levels ran for hours; the two largest trees are left to C01 / C12)
        cs = [c for c in cs if c[0] not in ("1d-h6", "3d-h4")]
    cs.append(("1d-h5-multi", fmm_constants(1, 5, POOL_1D_H5[:5], maxper=3, maxparts=8, bss=(1, 2, 20))))
    run_fmm_configs(run, "C18", cs)
    # the target/source executor around the wrappers: TbfInteractionCounter<BagKernel> (1) and TbfInteractionCounter<TbfInteractionTimer<BagKernel>> (2)
    for v, what in ((1, "TbfInteractionCounter"), (2, "TbfInteractionCounter<TbfInteractionTimer>")):
        for dim, consts in ((1, fmm_constants(1, 4, range(5), mode="tsm", bss=(1, 2, 3))), (2, fmm_constants(2, 3, [0, 3, 9, 15], mode="tsm", maxparts=3, bss=(1, 2)))):
            path, err = build("replay_fmm_%d_0_64_tsmwrap%d" % (dim, v), "replay_fmm.cpp", ["DIMV=%d" % dim, "PERIODICV=0", "CAPV=64", "TSMWRAPV=%d" % v])
            if path is None:
                first = [l for l in open(err).read().splitlines() if "error" in l and "/src/" in l][:2]
                run.violation("compile:tsm-wrapper-%d-d%d" % (v, dim), "the target/source executor does not compile with %s around a kernel: %s" % (what, " | ".join(first)[:500]),
                              run.write_replay("compile-tsm-wrapper-%d-d%d" % (v, dim), {"kind": "tsmwrap", "v": v, "dim": dim}))
                continue
            pairs, mism = fmm_campaign(run, "C18-tsm-wrap%d-%dd" % (v, dim), consts, tsmwrap=v)
            report_mismatches(run, "C18", "C18-tsm-wrap%d-%dd" % (v, dim), pairs, mism, ["Counters", "Digest.mp", "Digest.lo", "Digest.rhs", "ExactlyOnce", "Crash"])
    # per-worker copies under task schedules: merged counters must equal the sequential count, each copy used by one worker only
    pairs, mism, _ = omp_campaign(run, "C18-omp-1d-h5", fmm_constants(1, 5, POOL_1D_H5[:7], bss=(1, 2, 20), hists=("full", "stages3")), run.tier, graphs=0)
    report_mismatches(run, "C18", "C18-omp-1d-h5", pairs, [(k, re.sub(r"-(immediate|deferred|tlc)-.*$", "", key), "%s [%s]" % (t, key)) for k, key, t in mism], ["Counters", "KernelPerWorker", "WorkerKernelBound", "Crash"])
    run.coverage["rule"] = FMM_RULE + "; the executor runs TbfInteractionCounter<BagKernel>: its merged counters must equal the cardinalities TLC derives from the elementary sets (CountersEqualElementary), the wrapped kernel's own count, and leave the bag results unchanged"
    run.coverage["exhaustive"] = True
    run.assumptions += FMM_ASSUME + ["per-worker copies and merge orders under task schedules are covered by C03's mock-runtime runs"]


@check("C01", "model_checking")
def check_c01(run):
    cs = std_configs(run.tier)
    if run.tier == "quick":
        cs.append(("1d-h5-multi", fmm_constants(1, 5, POOL_1D_H5[:5], maxper=2, bss=(1, 2, 20), stops=(0, 2, 3))))
    else:
        cs.append(("1d-h5-multi", fmm_constants(1, 5, POOL_1D_H5[:6], maxper=3, maxparts=9, bss=(1, 2, 20), stops=(0, 1, 2, 3, 4, 5))))
        cs.append(("2d-h4-multi", fmm_constants(2, 4, POOL_2D_H4[:5], maxper=2, bss=(1, 2, 20), stops=(0, 2, 3))))
    run_fmm_configs(run, "C01", cs)
    # beyond the enumerated pools: recorded executions of large random trees validated by TLC (nothing lost, nothing twice)
    trace_campaign(run, "C01", run.tier, events=4)
    # dense trees (every leaf occupied, resp. a fully occupied 6^3 block whose central cells own the maximal interaction list), several particles in some leaves
    trace_campaign(run, "C01", run.tier, events=8, classes=DENSE_CLASSES[run.tier])
    # dense 3-D and 4-D blocks with the counting kernel (closed-form exactly-once; 4-D targets own up to 1215 sources)
    matrix_run(run, DENSE_CELLS, 6 if run.tier == "quick" else 30, ["ExactlyOnce", "StoredOnce", "Crash"])
    run.coverage["rule"] = FMM_RULE + "; plus code->spec trace validation: recorded kernel-call traces of random trees (1-D height 7-8, 2-D height 5-6, 3-D height 4-5, up to 60 particles) must be accepted by FmmTrace.tla"
    run.coverage["exhaustive"] = True
    run.assumptions += FMM_ASSUME


# =====================================================================================================
# code -> spec: traces recorded from the real executors on large random trees, validated by TLC (FmmTrace.tla)
# =====================================================================================================
def trace_validate(run, name, dim, height, periodic, mode, nexec, maxn, pid, events=0, variant="plain"):
    """Record nexec executions (sequential / OpenMP under a seeded random mock schedule alternate) of trees with up to maxn particles and
    let TLC accept or reject the concatenated trace: every kernel call must be an enabled batch of the dataflow layer with exactly
    its logged arguments; End requires that nothing is pending."""
    binp = need(build("record_fmm_%d_%d%s" % (dim, int(periodic), "_asan" if variant == "asan" else ""), "record_fmm.cpp",
                      ["DIMV=%d" % dim, "PERIODICV=%d" % int(periodic), "CAPV=1024"], variant=variant), run)
    rc, out, err = run_bin(binp, [height, run.seed, nexec, maxn, mode, events], timeout=900)
    if rc != 0 or not out.startswith('{"e":"Init"'):
        if rc in (98, 99) or "Sanitizer" in err or "runtime error" in err:
            run.violation("Sanitizer:" + name, "sanitizer report while a session was recorded (record_fmm %s): %s" % (" ".join(map(str, [height, run.seed, nexec, maxn, mode, events])),
                          " | ".join([l for l in err.strip().splitlines() if "ERROR" in l or "runtime error" in l or "SUMMARY" in l][:3])[:400]),
                          run.write_replay("Sanitizer-" + name, {"kind": "record", "dim": dim, "periodic": periodic, "variant": variant, "args": [height, run.seed, nexec, maxn, mode, events]}))
            return
        if rc == 3 or "MISMATCH kind=Crash" in out:
            run.violation("Crash:" + name, "the executor crashed while a trace was recorded: " + out[-300:],
                          run.write_replay("Crash-" + name, {"kind": "record", "dim": dim, "periodic": periodic, "variant": variant, "args": [height, run.seed, nexec, maxn, mode, events]}))
            return
        raise vlib.HarnessError("record_fmm failed (%s): %s" % (rc, (err or out)[-300:]))
    tdir = os.path.join(CACHE, "traces")
    os.makedirs(tdir, exist_ok=True)
    tpath = os.path.join(tdir, "%s-%d.ndjson" % (name, os.getpid()))
    with open(tpath, "w") as f:
        f.write(out)
    nlines = out.count("\n")
    consts = dict(Dim=dim, Height=height, Periodic=periodic, Mode="tsm" if mode else "single", Pool={0}, MaxPerLeaf=1, MaxParts=1, BlockSizes={1},
                  GroupModes="{FALSE}", StopLevels={2}, Histories='{"full"}', AboveLevelsP1={0}, EmitJson=False, Shard=0, NbShards=1)
    text = cfg("TraceSpec", consts, [], [], extra="POSTCONDITION Accepted")
    res = run_tlc("FmmTrace", text, env={"TRACE": tpath}, workers=1, timeout=900, tag=name, keep_json=False)
    log_txt = open(res.logpath).read()
    accepted = "Model checking completed. No error has been found." in log_txt and "Accepted" not in [l for l in log_txt.splitlines() if "violated" in l.lower() or "Error" in l].__str__()
    m = re.search(r"The depth of the complete state graph search is (\d+)", log_txt)
    if not m:
        # TLC did not finish (timeout, out of memory, parse error): never a verdict
        raise vlib.HarnessError("TLC did not complete the validation of trace %s (%s)" % (name, res.logpath))
    consumed = int(m.group(1)) - 1
    res.ok = True
    run.add_tlc(name, res, note="FmmTrace.tla on %d recorded sessions (%d events: kernel calls%s%s%s) of dim %d height %d %s trees with up to %d particles; consumed %d events" % (
        nexec, nlines, ", group structures" if events & 1 else "", ", look-ups" if events & 2 else "", ", staged executes and move/rebuild/second pass" if events & 4 else "",
        dim, height, "target/source" if mode else "single", maxn, consumed))
    run.coverage["traces_validated_against_impl"] += nexec
    run.coverage["trace_events_validated"] = run.coverage.get("trace_events_validated", 0) + consumed
    if consumed != nlines:
        lines = out.splitlines()
        badline = lines[consumed] if consumed < len(lines) else "<end>"
        # which execution does the rejected line belong to
        init = [l for l in lines[:consumed + 1] if l.startswith('{"e":"Init"')]
        keep = os.path.join(vlib.REPLAYS, "%s-trace-%s.ndjson" % (pid, name))
        os.makedirs(vlib.REPLAYS, exist_ok=True)
        shutil.copy(tpath, keep)
        run.violation("TraceRejected:" + name, "TLC rejects the recorded execution at event %d: %s  (execution header: %s)" % (consumed + 1, badline[:200], (init[-1] if init else "")[:200]),
                      run.write_replay("TraceRejected-" + name, {"kind": "trace", "trace": keep, "dim": dim, "height": height, "periodic": periodic, "mode": mode, "events": events, "rejected_line": consumed + 1, "event": badline}))
    else:
        run.sample({"validated_trace": name, "events": nlines, "first_event": out.splitlines()[0][:300]})
        os.remove(tpath)


DENSE_CLASSES = {"quick": [(1, 7, 2, 1), (2, 5, 1, 1), (3, 4, 2, 1)], "thorough": [(1, 8, 4, 1), (2, 5, 4, 1), (2, 6, 1, 1), (3, 4, 4, 1), (3, 5, 2, 1), (4, 3, 1, 1)]}


def trace_campaign(run, pid, tier, modes=(0,), periodic=False, events=0, classes=None, variant="plain"):
    """events: bit mask of record_fmm (1 group structures, 2 look-ups, 4 staged executes and move / rebuild / second pass)"""
    if classes is None:
        if tier == "quick":
            classes = [(1, 7, 20, 40), (2, 5, 12, 40), (3, 4, 6, 30)]
        else:
            classes = [(1, 8, 60, 60), (2, 6, 40, 60), (3, 4, 30, 60), (3, 5, 10, 40), (4, 3, 10, 20)]
    jobs = [(d, h, n, mx, m) for (d, h, n, mx) in classes for m in modes]
    with ThreadPoolExecutor(max_workers=4) as ex:
        list(ex.map(lambda j: trace_validate(run, "%s-trace%s-%dd-h%d-%s%s" % (pid, ("-ev%d" % events) if events else "", j[0], j[1], "tsm" if j[4] else "single", "-per" if periodic else ""),
                                             j[0], j[1], periodic, j[4], j[2], j[3], pid, events, variant), jobs))


# =====================================================================================================
# C03 / C15: task executors under the mock runtime, TaskRuntime.tla on the recorded graphs
# =====================================================================================================
import threading
_scn_memo = {}
_scn_memo_lock = threading.Lock()


def task_replay_binary(dim, periodic, cap=64, variant="plain", runtime="omp"):
    """replay_omp.cpp built for the OpenMP executors (GOMP ABI mock) or for the Specx executors (mock Legacy/SpRuntime.hpp)."""
    defs = ["DIMV=%d" % dim, "PERIODICV=%d" % int(periodic), "CAPV=%d" % cap]
    extra = ()
    if runtime == "specx":
        defs.append("RUNTIMEV=1")
        extra = ("-I" + os.path.join(vlib.HARNESS, "mock_specx"),)
    if runtime == "starpu":
        defs.append("RUNTIMEV=2")
        extra = ("-I" + os.path.join(vlib.HARNESS, "mock_starpu"),)
    return build("replay_%s_%d_%d_%d%s" % (runtime, dim, int(periodic), cap, "_asan" if variant == "asan" else ""), "replay_omp.cpp", defs, variant=variant, extra=extra)


def omp_campaign(run, name, consts, tier, variant="plain", graphs=24, max_graph_tasks=40, schedules=None, limit=None, cap=64, runtime="omp"):
    """TLC (Fmm.tla) generates the scenarios; replay_omp runs the OpenMP executors under the mock runtime on each of them with a
    list of schedules, compares with the sequential executor, evaluates Covered on the recorded graph and writes graphs for TLC."""
    memo_key = json.dumps({k: (sorted(v) if isinstance(v, (set, frozenset)) else v) for k, v in consts.items()}, sort_keys=True)
    with _scn_memo_lock:
        cached = _scn_memo.get((id(run), memo_key))
    if cached is None:
        res = tlc_sharded("Fmm", consts, FMM_INVS, ["WriteSets"], 8, 1, 1500, name)
        run.add_tlc(name, res, note="scenario generation for the task executors: Dim=%s Height=%s Mode=%s pool=%d" % (consts["Dim"], consts["Height"], consts["Mode"], len(consts["Pool"])))
        with _scn_memo_lock:
            _scn_memo[(id(run), memo_key)] = res
    else:
        res = cached      # the same scenario set was already generated by TLC in this run (another runtime front end replays it)
    if res.violated:
        run.machinery_errors.append("TLC: %s violated in %s (log %s)" % (res.violated, name, res.logpath))
        return [], [], None
    scn = [r for r in res.lines if r.get("k") == "scn"]
    if limit:
        scn = sorted(scn, key=lambda r: -len(r["sparts"]))[:limit]
    binp = need(task_replay_binary(consts["Dim"], consts["Periodic"], cap, variant, runtime), run)
    _replay_info[name] = {"kind": "task", "cap": cap, "variant": variant, "runtime": runtime, "tier": tier}
    pool = sorted(consts["Pool"])
    recs = [fmm_record(r, pool, (i + run.seed) % NVARIANTS) for i, r in enumerate(scn)]
    nchunks = max(1, min(vlib.NCPU, len(recs) // 40))
    chunks = [recs[i::nchunks] for i in range(nchunks)]
    gdir = os.path.join(CACHE, "graphs")
    os.makedirs(gdir, exist_ok=True)
    def one(ic):
        i, ch = ic
        env = {"VERIF_GRAPH_FILE": os.path.join(gdir, "%s-%d-%d.ndjson" % (name, os.getpid(), i)), "VERIF_GRAPHS": str(max(1, graphs // nchunks)),
               "VERIF_GRAPH_MAXTASKS": str(max_graph_tasks), "VERIF_GRAPH_EVERY": str(max(1, len(ch) // (3 * max(1, graphs // nchunks))))}
        if schedules:
            env["VERIF_SCHEDULES"] = schedules
        return run_bin(binp, ["thorough"] if tier == "thorough" else [], stdin_text="\n".join(ch) + "\n", timeout=1500, env=env), env["VERIF_GRAPH_FILE"]
    with ThreadPoolExecutor(max_workers=nchunks) as ex:
        outs = list(ex.map(one, enumerate(chunks)))
    mism, checks, gfiles, tlcrep = [], 0, [], 0
    for ((rc, out, err), gf) in outs:
        m, summary = parse_harness_output(out)
        if "HARNESS-ERROR" in out:
            raise vlib.HarnessError("replay_omp: " + [l for l in out.splitlines() if "HARNESS-ERROR" in l][0])
        if summary is None or rc not in (0, 1, 3):
            if rc in (98, 99) or "Sanitizer" in err or "runtime error" in err:
                first = [l for l in err.splitlines() if "ERROR: AddressSanitizer" in l or "runtime error" in l or "SUMMARY" in l]
                m.append(("Sanitizer", name, (first or ["sanitizer report"])[0][:300]))
            else:
                raise vlib.HarnessError("replay_omp failed in %s (exit %s): %s" % (name, rc, (err or out)[-400:]))
        else:
            checks += summary.get("checks", 0)
        for l in out.splitlines():
            if l.startswith("INFO tlcSchedulesReplayed="):
                tlcrep += int(l.split("=")[1])
        mism += m
        if os.path.exists(gf) and os.path.getsize(gf) > 0:
            gfiles.append(gf)
    run.add_harness(name, {"scenarios": len(recs), "checks": checks, "mismatches": len(mism), "tlc_schedules_replayed": tlcrep, "schedules_per_scenario": 6 if tier == "quick" else 14}, 0)
    run.coverage["traces_validated_against_impl"] += len(recs)
    run.coverage["evaluations"] += len(recs) * (6 if tier == "quick" else 14) + tlcrep
    run.coverage["distinct_nontrivial"] += sum(1 for r in scn if len(set(r["sparts"])) >= 2 and max(len(l) for l in r["sgroups"]) >= 2)
    gall = None
    if gfiles:
        gall = os.path.join(gdir, "%s-%d-all.ndjson" % (name, os.getpid()))
        with open(gall, "w") as f:
            for gf in gfiles:
                f.write(open(gf).read())
                os.remove(gf)
    return list(zip(scn, recs)), mism, gall


def taskruntime_on(run, name, gall, tier, pairs):
    """code -> spec: TLC explores the interleavings of the recorded graphs (NoRace, AllDone, Covered => NoRace), validates the orders the
    mock runtime actually used, and generates schedules that are replayed through the mock runtime (spec -> code)."""
    maxt = 12 if tier == "quick" else 16
    consts = dict(NbWorkers=2 if tier == "quick" else 3, MaxTasksExhaustive=maxt, Shard=0, NbShards=1, EmitSchedules=True)
    def one(i):
        c = dict(consts); c["Shard"], c["NbShards"] = i, 8
        text = cfg("FairSpec", c, ["NoRace", "CoveredImpliesNoRace", "Report", "Emit"], ["AllDone"], extra="VIEW View")
        return run_tlc("TaskRuntime", text, env={"GRAPHS": gall}, workers=1, timeout=1500, tag="%s-s%d" % (name, i), heap="3g")
    with ThreadPoolExecutor(max_workers=8) as ex:
        parts = list(ex.map(one, range(8)))
    res = parts[0]
    for p in parts[1:]:
        res.generated += p.generated; res.distinct += p.distinct; res.lines += p.lines; res.wall = max(res.wall, p.wall)
        res.ok = res.ok and p.ok; res.violated = res.violated or p.violated; res.error = res.error or p.error
    run.add_tlc(name, res, note="TaskRuntime.tla on %d recorded task graphs, exhaustive interleavings for graphs of <= %d tasks with %d workers" % (
        sum(1 for r in res.lines if r.get("k") == "graph"), maxt, consts["NbWorkers"]))
    graphs = [r for r in res.lines if r.get("k") == "graph"]
    run.coverage["task_graphs_loaded"] = run.coverage.get("task_graphs_loaded", 0) + len(graphs)
    run.coverage["task_graphs_explored_exhaustively"] = run.coverage.get("task_graphs_explored_exhaustively", 0) + sum(1 for gph in graphs if gph["explored"])
    if res.violated:
        run.violation("NoRace:" + name, "TLC: %s violated on a task graph recorded from the real executor (log %s)" % (res.violated, res.logpath),
                      run.write_replay("NoRace-" + name, {"kind": "taskgraph", "graphs": gall, "log": res.logpath}))
    for gph in graphs:
        if not gph["runsLegal"]:
            run.machinery_errors.append("the mock runtime ran graph %s in an order TaskRuntime.tla does not allow (harness bug)" % gph["key"])
        if not gph["covered"]:
            run.violation("Covered:" + gph["key"], "TLC: the declared dependences of the recorded graph do not cover its actual conflicts",
                          run.write_replay("Covered-" + gph["key"], {"kind": "taskgraph", "graphs": gall, "key": gph["key"]}))
    if graphs:
        run.sample({"task_graph": graphs[0]})
    scheds = [r for r in res.lines if r.get("k") == "sched"]
    if not scheds:
        return []
    spath = os.path.join(CACHE, "graphs", "%s-%d.sched" % (name, os.getpid()))
    with open(spath, "w") as f:
        for sc in scheds:
            f.write("%s %d %s\n" % (sc["key"], len(sc["order"]), " ".join(map(str, sc["order"]))))
    run.coverage["tlc_generated_schedules"] = run.coverage.get("tlc_generated_schedules", 0) + len(scheds)
    return spath


C03_KINDS = ["SameAsSequential", "Covered", "Crash", "Sanitizer", "WorkerKernelBound", "KernelPerWorker", "RuntimeApi", "Arg", "ExecPreservesSymbolic", "WriteSets", "Counters"]


# non-default upper working levels (above, at and below the leaf level) through the task executors
OMP_ADJ = [("omp-2d-h3-adj", fmm_constants(2, 3, [0, 1, 2, 3, 6, 12], bss=(1, 2, 20))),
           ("omp-tsm-2d-h3-adj", fmm_constants(2, 3, [0, 1, 2, 3], mode="tsm", maxparts=3, bss=(1, 2)))]
OMP_STOPS = [("omp-1d-h4-stops", fmm_constants(1, 4, [0, 1, 2, 5, 6, 7], bss=(1, 2, 20), stops=(0, 1, 3, 4), hists=("full", "stages3"))),
             ("omp-2d-h3-stops", fmm_constants(2, 3, [0, 3, 5, 10, 15], bss=(1, 2), stops=(0, 1, 3))),
             ("omp-tsm-1d-h4-stops", fmm_constants(1, 4, [0, 2, 5, 7], mode="tsm", bss=(1, 2), stops=(0, 1, 3, 4)))]


def omp_configs(tier):
    if tier == "quick":
        return [("omp-1d-h5", fmm_constants(1, 5, POOL_1D_H5[:7], bss=(1, 2, 3, 20), hists=("full", "stages3", "farnear", "nearfirst"))),
                ("omp-2d-h4", fmm_constants(2, 4, POOL_2D_H4[:6], bss=(1, 2, 20))),
                ("omp-3d-h4", fmm_constants(3, 4, POOL_3D_H4[:5], bss=(1, 2, 20))),
                ("omp-1d-h5-multi", fmm_constants(1, 5, POOL_1D_H5[:5], maxper=2, bss=(1, 2, 20))),
                ("omp-tsm-1d-h5", fmm_constants(1, 5, POOL_1D_H5[:5], mode="tsm", bss=(1, 2, 20))),
                ("omp-tsm-2d-h4", fmm_constants(2, 4, POOL_2D_H4[:4], mode="tsm", bss=(1, 2)))] + OMP_STOPS + OMP_ADJ
    return OMP_STOPS + OMP_ADJ + [("omp-1d-h5", fmm_constants(1, 5, POOL_1D_H5, bss=(1, 2, 3, 5, 20), hists=("full", "stages3", "single6", "farnear", "nearfirst", "uponly", "m2lafterup"))),
            ("omp-1d-h6", fmm_constants(1, 6, POOL_1D_H6, bss=(1, 2, 3, 20))),
            ("omp-2d-h4", fmm_constants(2, 4, POOL_2D_H4[:8], bss=(1, 2, 3, 20), stops=(0, 2))),
            ("omp-3d-h4", fmm_constants(3, 4, POOL_3D_H4[:7], bss=(1, 2, 3, 20))),
            ("omp-4d-h3", fmm_constants(4, 3, POOL_4D_H3[:5], bss=(1, 2, 20))),
            ("omp-1d-h5-multi", fmm_constants(1, 5, POOL_1D_H5[:6], maxper=3, maxparts=8, bss=(1, 2, 20))),
            ("omp-2d-h4-multi", fmm_constants(2, 4, POOL_2D_H4[:4], maxper=2, bss=(1, 2, 20))),
            ("omp-tsm-1d-h5", fmm_constants(1, 5, POOL_1D_H5[:6], mode="tsm", bss=(1, 2, 3, 20))),
            ("omp-tsm-2d-h4", fmm_constants(2, 4, POOL_2D_H4[:5], mode="tsm", bss=(1, 2, 20))),
            ("omp-tsm-3d-h3", fmm_constants(3, 3, POOL_3D_H3[:4], mode="tsm", bss=(1, 2)))]


TASKEXEC_INVS = ["NoAssertFail", "GeometricConsistency", "NothingAboveStopLevel", "MultipoleDef", "LocalDef", "RhsDef", "Completes", "ExactlyOnce",
                 "CountersEqualElementary", "ElementarySetIndependentOfGrouping", "DeclaredCoversActual", "ConflictsOrdered", "EmitGraph"]


def taskexec_stage(run):
    """Design level of C03 (spec/TaskExec.tla): the submission program of the task executors - one task per wrapper call with the declared read /
    commutative-write accesses - under EVERY order a conforming runtime may choose, for every tree of small pools: each task must be an enabled
    batch when it runs and every schedule must end in the closed-form state.  The model graph of every scenario is then compared with the graph
    RECORDED from the three real executors (same tasks in the same submission order with the same declared handles): that equality is what
    carries the model-level result over to the code; it is reported in the evidence, the verdicts on the code come from Covered / SameAsSequential."""
    q = run.tier == "quick"
    cfgs = [("tx-1d-h4", fmm_constants(1, 4, [0, 1, 5] if q else [0, 1, 2, 5], bss=(1, 2)), False),
            ("tx-2d-h3", fmm_constants(2, 3, [0, 1, 3], bss=(1, 2)), False),
            ("tx-tsm-1d-h4", fmm_constants(1, 4, [1, 2, 6], mode="tsm", maxparts=2, bss=(1, 2)), False),
            ("tx-1d-h4-live", fmm_constants(1, 4, [0, 5], bss=(1,)), True)]
    if not q:
        cfgs += [("tx-1d-h5", fmm_constants(1, 5, [0, 7, 8], bss=(1, 2, 20), hists=("full", "stages3")), False),
                 ("tx-3d-h3", fmm_constants(3, 3, [0, 9, 63], bss=(1, 2)), False),
                 ("tx-1d-h4-live3", fmm_constants(1, 4, [0, 1, 5], bss=(1, 2)), True)]
    def one(c):
        name, consts, live = c
        consts = dict(consts, EmitJson=True)
        res = tlc_sharded("TaskExec", consts, TASKEXEC_INVS, ["Terminates"] if live else [], 7, 1, 1500 if q else 6000, "C03-" + name, spec="TFairSpec" if live else "TSpec")
        run.add_tlc("C03-" + name, res, note="TaskExec.tla: every schedule of the modelled submission program, Dim=%s Height=%s Mode=%s pool=%d bs=%s%s" % (
            consts["Dim"], consts["Height"], consts["Mode"], len(consts["Pool"]), sorted(consts["BlockSizes"]), ", liveness (Terminates under weak fairness)" if live else ""))
        if res.violated or not res.ok:
            run.machinery_errors.append("TLC: %s of spec/TaskExec.tla in configuration %s (log %s): the specification of the submission program is inconsistent" % (
                res.violated or res.error or "no verdict", name, res.logpath))
        return name, consts, [r for r in res.lines if r.get("k") == "mgraph"]
    with ThreadPoolExecutor(max_workers=2) as ex:
        models = list(ex.map(one, cfgs))
    stats = {"scenarios": 0, "graphs_compared": 0, "graphs_equal": 0, "first_difference": None}
    def mkey(g):
        return "d%dh%d%s%s-S[%s]%s-bs%d-og%d-st%d-hi%d" % (g["dim"], g["height"], "p" if g["periodic"] else "", "-tsm" if g["mode"] == "tsm" else "", ",".join(map(str, g["sparts"])),
                                                          ("-T[%s]" % ",".join(map(str, g["tparts"]))) if g["mode"] == "tsm" else "", g["bs"], int(g["ogpp"]), g["stop"], HIST[g["hist"]])
    def hname(h, tsm):
        if h[0] in ("pd", "pr"):
            return ("" if h[1] == "x" else h[1]) + h[0] + "." + str(h[2] - 1)
        tree = "" if not tsm else ("s" if h[0] == "mp" else "t")
        return tree + h[0] + "." + str(h[1]) + "." + str(h[2] - 1)
    for name, consts, mg in models:
        if name.endswith("-live"):
            continue
        bykey = {}
        for g in mg:
            bykey.setdefault(mkey(g), []).append(g)
        stats["scenarios"] += len(bykey)
        mconsts = dict(consts)
        for runtime in ("omp", "specx", "starpu"):
            pairs, mism, gall = omp_campaign(run, "C03-%s-%s" % (name, runtime), mconsts, "quick", runtime=runtime, graphs=100000, max_graph_tasks=100000)
            report_mismatches(run, "C03", "C03-%s-%s" % (name, runtime), pairs, [(k, re.sub(r"-(immediate|deferred|tlc)-.*$", "", key), "%s [%s]" % (t, key)) for k, key, t in mism], C03_KINDS)
            if not gall:
                continue
            cur, tasks = None, []
            graphs = {}
            for line in open(gall):
                try:
                    r = json.loads(line)
                except ValueError:
                    continue        # a run that crashed (reported as Crash) leaves a truncated line behind
                if r["e"] == "Graph":
                    cur = re.sub(r"-v\d+$", "", r["key"]); graphs.setdefault(cur, [])
                elif r["e"] == "Task" and cur is not None and len(graphs[cur]) < r["t"]:
                    graphs[cur].append(r)
            for key, rec in graphs.items():
                if key not in bykey:
                    continue
                g = bykey[key][0]; tsm = g["mode"] == "tsm"
                stats["graphs_compared"] += 1
                model = [(sorted(hname(h, tsm) for h in t["ins"]), sorted(hname(h, tsm) for h in t["muts"])) for t in g["tasks"]]
                code = [(sorted(d[0] for d in t["deps"] if d[1] == "in" and re.match(r"^[st]?(mp|lo|pd|pr)\.", d[0])),
                         sorted(d[0] for d in t["deps"] if d[1] != "in" and re.match(r"^[st]?(mp|lo|pd|pr)\.", d[0]))) for t in rec]
                if model == code:
                    stats["graphs_equal"] += 1
                elif stats["first_difference"] is None:
                    stats["first_difference"] = {"runtime": runtime, "key": key, "model": model[:40], "recorded": code[:40]}
            os.remove(gall)
    run.coverage["taskexec_model_vs_recorded_graphs"] = stats
    log("TaskExec: model graph equals the recorded graph for %d of %d compared (scenario, runtime) pairs" % (stats["graphs_equal"], stats["graphs_compared"]))


@check("C03", "model_checking")
def check_c03(run):
    q = run.tier == "quick"
    taskexec_stage(run)
    shared = [("1d-h5", fmm_constants(1, 5, POOL_1D_H5[:7], bss=(1, 2, 3, 20))), ("3d-h4", fmm_constants(3, 4, POOL_3D_H4[:5], bss=(1, 2, 20))),
              ("tsm-1d-h5", fmm_constants(1, 5, POOL_1D_H5[:4], mode="tsm", bss=(1, 2, 20))),
              ("1d-h4-stops", fmm_constants(1, 4, [0, 1, 2, 5, 6, 7], bss=(1, 2, 20), stops=(0, 1, 3, 4))),
              # mutually adjacent leaves in separate groups: one source group shared by several direct-pass tasks
              ("2d-h3-adj", fmm_constants(2, 3, [0, 1, 2, 3, 6, 12], bss=(1, 2, 20))),
              ("per-1d-h4", fmm_constants(1, 4, [0, 3, 4, 7], periodic=True, stops=(1,), bss=(1, 2, 20)))]
    if not q:
        shared += [("2d-h4", fmm_constants(2, 4, POOL_2D_H4[:7], bss=(1, 2, 3, 20), hists=("full", "stages3"))), ("tsm-2d-h4", fmm_constants(2, 4, POOL_2D_H4[:4], mode="tsm", bss=(1, 2)))]
    jobs = [("omp-" + n, c, "omp") for n, c in omp_configs(run.tier)]
    # the Specx and StarPU executors through API-compatible mocks of Legacy/SpRuntime.hpp and starpu.h feeding the same scheduler core
    jobs += [("specx-" + n, c, "specx") for n, c in shared] + [("starpu-" + n, c, "starpu") for n, c in shared]
    def one(job):
        name, consts, runtime = job
        pairs, mism, gall = omp_campaign(run, "C03-" + name, consts, run.tier, runtime=runtime, graphs=24 if runtime == "omp" else 8)
        strip = lambda ms: [(k, re.sub(r"-(immediate|deferred|tlc)-.*$", "", key), "%s [%s]" % (t, key)) for k, key, t in ms]
        out = [(pairs, strip(mism))]
        if gall:
            spath = taskruntime_on(run, "C03-" + name + "-graphs", gall, run.tier, pairs)
            if spath and runtime == "omp":
                keys = set(l.split(" ", 1)[0] for l in open(spath))
                sub = [(r, line) for r, line in pairs if scenario_key(r, line) in keys]
                if sub:
                    # spec -> code: run the schedules TLC found through the mock runtime
                    binp = need(task_replay_binary(consts["Dim"], consts["Periodic"]), run)
                    rc, o, err = run_bin(binp, [], stdin_text="\n".join(l for _, l in sub) + "\n", env={"VERIF_SCHEDULES": spath}, timeout=900)
                    m2, summary = parse_harness_output(o)
                    if "HARNESS-ERROR" in o:
                        raise vlib.HarnessError("replay_omp (TLC schedules): " + [l for l in o.splitlines() if "HARNESS-ERROR" in l][0])
                    nrep = sum(int(l.split("=")[1]) for l in o.splitlines() if l.startswith("INFO tlcSchedulesReplayed="))
                    run.coverage["tlc_schedules_replayed"] = run.coverage.get("tlc_schedules_replayed", 0) + nrep
                    out.append((sub, strip(m2)))
        return name, out
    with ThreadPoolExecutor(max_workers=3) as ex:
        results = list(ex.map(one, jobs))
    for name, outs in results:
        for pairs, mism in outs:
            report_mismatches(run, "C03", "C03-" + name, pairs, mism, C03_KINDS)
    # "to rounding otherwise": the shipped floating-point kernels through the OpenMP executor under deferred schedules vs the sequential executor
    realkernel_stage(run, "C03", ["SameAsSequential", "Crash"])
    # code -> spec: kernel-call traces of the OpenMP executors under seeded random schedules must respect the dataflow guards of Fmm.tla
    trace_campaign(run, "C03", run.tier, modes=(0, 1), events=4)
    # lifetime of captured variables: the same schedules on the AddressSanitizer build (detect_stack_use_after_return)
    for name, consts in omp_configs(run.tier)[::2]:
        pairs, mism, _ = omp_campaign(run, "C03-asan-" + name, consts, "quick", variant="asan", graphs=0, limit=60 if run.tier == "quick" else 250)
        report_mismatches(run, "C03", "C03-asan-" + name, pairs, [(k, re.sub(r"-(immediate|deferred|tlc)-.*$", "", key), "%s [%s]" % (t, key)) for k, key, t in mism], C03_KINDS)
    run.coverage["rule"] = ("one case = one TLC scenario (occupancy, block size, grouping mode, history) executed by TbfOpenmpAlgorithm / TbfOpenmpAlgorithmTsm under the mock "
                            "GOMP runtime with each listed schedule (immediate; fully deferred fifo, lifo, random, priority-inverted, with stack scrubbing; thread counts 1-16; "
                            "round-robin / random / last worker ids) and compared bag by bag with the sequential executor; the recorded task graph (declared dependences mapped to "
                            "group buffers, actual accesses from the kernel callbacks) must satisfy Covered; a sample of graphs is explored by TLC (TaskRuntime.tla: NoRace, AllDone, "
                            "Covered => NoRace over all interleavings) and TLC's schedules are replayed through the mock runtime; an AddressSanitizer build repeats a subset; "
                            "design level: spec/TaskExec.tla models the submission program (one task per wrapper call, declared read / commutative-write handles) and TLC checks every order the "
                            "declarations allow on every tree of small pools (each task an enabled batch, closed-form end state, DeclaredCoversActual, ConflictsOrdered, termination), its model graph being "
                            "compared with the graphs recorded from the OpenMP, Specx and StarPU executors (coverage.taskexec_model_vs_recorded_graphs); the shipped rotation / uniform kernels through the "
                            "OpenMP executor under deferred schedules equal the sequential executor to rounding")
    run.assumptions += FMM_ASSUME[:1] + ["the mock runtime implements the OpenMP dependence rules (its run orders are validated by TLC against TaskRuntime.tla); schedules are executed one task at a time, which is sound for result equality only together with NoRace/Covered on actual accesses",
                                         "GCC 12 defines _OPENMP=201511, so `commute` expands to inout; the Specx and StarPU executors run through API-compatible mocks of Legacy/SpRuntime.hpp and starpu.h (commutative write = mutual exclusion) feeding the same scheduler core; CUDA variants are not covered"]


@check("C09", "model_checking")
def check_c09(run):
    q = run.tier == "quick"
    cs = [("tsm-1d-h5", fmm_constants(1, 5, POOL_1D_H5[:5 if q else 7], mode="tsm", bss=(1, 2, 3, 20), stops=(0, 2), hists=("full",))),
          ("tsm-2d-h4", fmm_constants(2, 4, POOL_2D_H4[:4 if q else 5], mode="tsm", bss=(1, 2, 20), stops=(2,), hists=("full", "stages3"))),
          ("tsm-3d-h3", fmm_constants(3, 3, POOL_3D_H3[:3 if q else 4], mode="tsm", bss=(1, 2), stops=(0, 2))),
          ("tsm-1d-h4-multi", fmm_constants(1, 4, [0, 3, 4, 7] if q else [0, 1, 3, 4, 7], mode="tsm", maxper=2, maxparts=4 if q else 5, bss=(1, 2, 20)))]
    cs.append(("tsm-4d-h3", fmm_constants(4, 3, POOL_4D_H3[:2 if q else 3], mode="tsm", bss=(1, 2))))
    cs.append(("tsm-1d-h4-per", fmm_constants(1, 4, [0, 3, 4, 7], mode="tsm", periodic=True, stops=(1,), maxparts=3, bss=(1, 2))))
    run_fmm_configs(run, "C09", cs)
    # target/source trees with the automatic block size (TbfBlockSizeFinder::EstimateTsm), other types and orderings: counting-kernel cells
    matrix_run(run, [dict(DIMV=1, REAL_T="double", ORDERV=0, AUTOBS=1, REBUILDV=0, EXECV=2), dict(DIMV=3, REAL_T="float", ORDERV=0, AUTOBS=1, REBUILDV=1, EXECV=2),
                     dict(DIMV=2, REAL_T="double", ORDERV=1, AUTOBS=1, REBUILDV=0, EXECV=2), DENSE_CELLS[2]], 30 if q else 150, ["ExactlyOnce", "StoredOnce", "InRightLeaf", "Crash"])
    # code -> spec: target/source sessions on large random trees (sources and targets of different shapes, staged executes, moves + rebuild)
    trace_campaign(run, "C09", run.tier, modes=(1,), events=4)
    # the OpenMP target/source executor under the schedules of C03
    pairs, mism, _ = omp_campaign(run, "C09-omp-tsm-1d-h5", fmm_constants(1, 5, POOL_1D_H5[:4 if q else 6], mode="tsm", bss=(1, 2, 20)), run.tier, graphs=0)
    report_mismatches(run, "C09", "C09-omp-tsm-1d-h5", pairs, [(k, re.sub(r"-(immediate|deferred|tlc)-.*$", "", key), "%s [%s]" % (t, key)) for k, key, t in mism],
                      ["SameAsSequential", "Covered", "Crash", "Arg", "KernelPerWorker", "WorkerKernelBound"])
    run.coverage["rule"] = ("one case = one (source occupancy pattern, target occupancy pattern, block size, grouping mode, stop level, history): every pair of patterns of the pool "
                            "(disjoint, overlapping, identical, single leaf or single particle on either side) explored by TLC on Fmm.tla in target/source mode (TsmExactlyOnce = ExactlyOnce with "
                            "p ranging over targets and q over all sources, locals/multipoles by definition, sources own no result buffer) and replayed on TbfTreeTsm + TbfAlgorithmTsm, "
                            "and on TbfOpenmpAlgorithmTsm under the mock-runtime schedules")
    run.coverage["exhaustive"] = True
    run.assumptions += FMM_ASSUME


@check("C10", "model_checking")
def check_c10(run):
    q = run.tier == "quick"
    ab1 = (-1, 0, 1, 2, 3) if q else (-1, 0, 1, 2, 3, 4, 5)
    cs = [("per-1d-h3", fmm_constants(1, 3, range(4), periodic=True, maxparts=3, stops=(1,), bss=(1, 2, 20), hists=("ptop", "ptopb"), aboves=ab1)),
          ("per-1d-h4", fmm_constants(1, 4, [0, 1, 4, 7], periodic=True, maxparts=3, stops=(1,), bss=(1, 2, 20), hists=("ptop",), aboves=ab1[:4])),
          ("per-1d-h2", fmm_constants(1, 2, range(2), periodic=True, maxper=2, maxparts=3, stops=(1,), bss=(1, 2), hists=("ptop",), aboves=ab1)),
          ("per-2d-h3", fmm_constants(2, 3, [0, 6, 9, 15], periodic=True, maxparts=2 if q else 3, stops=(1,), bss=(1, 2, 20), hists=("ptop",), aboves=(-1, 0, 1))),
          ("per-2d-h2", fmm_constants(2, 2, range(4), periodic=True, maxparts=2, stops=(1,), bss=(1, 2, 20), hists=("ptop",), aboves=(-1, 0, 1) if q else (-1, 0, 1, 2))),
          ("per-inner-1d-h4", fmm_constants(1, 4, range(8), periodic=True, maxparts=4, stops=(1,), bss=(1, 2, 3, 20), hists=("full",))),
          ("per-tsm-1d-h3", fmm_constants(1, 3, range(4), periodic=True, mode="tsm", maxparts=2, stops=(1,), bss=(1, 2), hists=("ptop",), aboves=(-1, 0, 1, 2)))]
    # target/source top tree in 2-D: level-1 groups of the source tree with holes (cells 0 and 2, 0 and 3, 1 and 3 in one group), targets elsewhere
    cs.append(("per-tsm-2d-h2", fmm_constants(2, 2, range(4), periodic=True, mode="tsm", maxparts=2, stops=(1,), bss=(1, 2), hists=("ptop",), aboves=(0, 1) if q else (-1, 0, 1, 2))))
    if not q:
        cs.append(("per-3d-h2", fmm_constants(3, 2, [0, 3, 5, 7], periodic=True, maxparts=2, stops=(1,), bss=(1, 20), hists=("ptop",), aboves=(-1, 0))))
        cs.append(("per-tsm-2d-h3", fmm_constants(2, 3, [0, 6, 9, 15], periodic=True, mode="tsm", maxparts=2, stops=(1,), bss=(1, 2, 20), hists=("ptop",), aboves=(0, 1))))
    run_fmm_configs(run, "C10", cs, cap=1024 if q else 2048)
    # code -> spec: the in-box part (wrapped lists, stop level 1) recorded on large random periodic trees, sequential / OpenMP / target-source, validated by TLC
    trace_campaign(run, "C10", run.tier, modes=(0, 1), periodic=True, events=4,
                   classes=[(1, 6, 12, 30), (2, 4, 8, 25), (3, 3, 4, 20)] if q else [(1, 7, 40, 50), (2, 5, 20, 40), (3, 3, 20, 15), (3, 4, 6, 15), (4, 2, 10, 5)])      # (bags hold 3^Dim images per source particle, twice after a second pass)
    # the periodic shifter (src/utils/tbfperiodicshifter.hpp): Grid.tla's ImageOf for every neighbour of every leaf of periodic grids
    shcells = [(1, 5, True, "morton"), (2, 4, True, "morton"), (3, 3, True, "morton"), (4, 2, True, "morton")] if q else \
              [(1, 8, True, "morton"), (2, 5, True, "morton"), (3, 4, True, "morton"), (4, 3, True, "morton"), (3, 2, True, "morton"), (1, 2, True, "morton")]
    with ThreadPoolExecutor(max_workers=4) as ex:
        for name, ncell, summary, viol, sample in ex.map(lambda c: grid_one(run, *c), shcells):
            run.coverage["traces_validated_against_impl"] += ncell
            run.coverage["evaluations"] += summary.get("checks", 0)
            for key, text, rp in viol:
                if key.startswith("Shift:") or key.endswith("-spec"):
                    run.violation(key, text, run.write_replay(key, dict(rp or {}, key=key, text=text)) if rp else None)
    # the in-box part through the OpenMP executors under the mock-runtime schedules (the top tree itself is sequential)
    for name, consts in [("omp-per-1d-h3", fmm_constants(1, 3, range(4), periodic=True, maxparts=3, stops=(1,), bss=(1, 2, 20), hists=("ptop", "ptopb"), aboves=(-1, 0, 2))),
                         ("omp-per-2d-h2", fmm_constants(2, 2, range(4), periodic=True, maxparts=2, stops=(1,), bss=(1, 2), hists=("ptop",), aboves=(-1, 1))),
                         ("omp-per-tsm-1d-h3", fmm_constants(1, 3, range(4), periodic=True, mode="tsm", maxparts=2, stops=(1,), bss=(1, 2), hists=("ptop",), aboves=(0, 1)))]:
        pairs, mism, _ = omp_campaign(run, "C10-" + name, consts, run.tier, graphs=0, cap=1024)
        report_mismatches(run, "C10", "C10-" + name, pairs, [(k, re.sub(r"-(immediate|deferred|tlc)-.*$", "", key), "%s [%s]" % (t, key)) for k, key, t in mism],
                          ["SameAsSequential", "Covered", "Crash", "Arg", "Shift", "KernelPerWorker"])
    run.coverage["rule"] = ("one case = one (occupancy, block size, grouping mode, number of extra levels) of the documented periodic sequence (upward pass with working level 1, "
                            "periodic top tree, transfer, downward pass) explored by TLC with image-carrying contributions: ImagesExactlyOnce requires exactly one contribution from "
                            "every particle image of the repetition interval derived from the top tree's transfer windows (none from itself in the central box), GeometricConsistency "
                            "holds modulo the box; the replay runs TbfAlgorithm + TbfAlgorithmPeriodicTopTree(/Tsm) with the bag kernel, compares the digests and checks that "
                            "getRepetitionsIntervals / getNbRepetitionsPerDim report that interval")
    run.coverage["exhaustive"] = True
    run.assumptions += FMM_ASSUME + ["per-dimension (anisotropic) box widths are exercised by the replay variants; numerical kernels are out of scope (C04/C05)"]


MEM_INVS = ["Disjoint", "InBounds", "AccessorInBlock", "RowsDisjoint", "Aligned", "TrailerRoundTrip", "NoDoubleFree", "Emit"]


def memblock_stage(run, pid, only_sanitizer=False):
    """MemBlock.tla's histories (reset with reuse, move, view) replayed on TbfMemoryBlock under AddressSanitizer.  C14 reports every difference;
    C15 (only_sanitizer) reports sanitizer findings: use after free, double release, leak, access outside the buffer."""
    q = run.tier == "quick"
    consts = dict(Align=64, Word=8, MaxItems=5 if q else 9, ExtraCounts={8, 9, 64, 65} if q else {8, 9, 16, 17, 63, 64, 65, 128, 129, 1000, 4096, 10000}, MaxOps=3, Shard=0, NbShards=1, EmitJson=True)
    res = tlc_sharded("MemBlock", consts, MEM_INVS, [], 8, 1, 1500, pid + "-memblock")
    run.add_tlc(pid + "-memblock", res, note="MemBlock.tla: 10 layouts (1-4 sub-blocks of scalar / vector / multi-row / multi-column kinds, element sizes 1..4096), counts 0..%d + %s, histories reset / reuse-reset / move / byte-copy view" % (consts["MaxItems"], sorted(consts["ExtraCounts"])))
    if res.violated:
        run.machinery_errors.append("TLC: %s of spec/MemBlock.tla violated (log %s)" % (res.violated, res.logpath))
    OPC = {"reset": 0, "move": 1, "view": 2}
    recs = []
    for r in res.lines:
        if r.get("k") != "mem":
            continue
        v = [r["layout"], len(r["ops"])]
        for o in r["ops"]:
            v += [OPC[o["op"]], len(o["counts"])] + list(o["counts"]) + [o["alloc"], len(o["offs"])] + list(o["offs"])
        recs.append(" ".join(map(str, v)))
    binp = need(build("replay_mem_asan", "replay_mem.cpp", [], variant="asan"), run)
    nchunks = 8
    with ThreadPoolExecutor(max_workers=nchunks) as ex:
        outs = list(ex.map(lambda ch: run_bin(binp, [], stdin_text="\n".join(ch) + "\n", timeout=900), [recs[i::nchunks] for i in range(nchunks)]))
    checks = 0
    for rc, out, err in outs:
        m, summary = parse_harness_output(out)
        if summary is None:
            if rc in (98, 99) or "Sanitizer" in err or "runtime error" in err:
                first = [l for l in err.splitlines() if "ERROR: AddressSanitizer" in l or "runtime error" in l]
                run.violation("Sanitizer:memblock", (first or ["sanitizer report"])[0][:300], run.write_replay("Sanitizer-memblock", {"kind": "mem", "stderr": err[-2000:]}))
                continue
            raise vlib.HarnessError("replay_mem failed (exit %s): %s" % (rc, (err or out)[-400:]))
        checks += summary.get("checks", 0)
        seen = set()
        for kind, key, text in m:
            if (kind, key) in seen or only_sanitizer:
                continue
            seen.add((kind, key))
            run.violation(kind + ":" + key, text, run.write_replay(kind + "-" + key, {"kind": "mem", "key": key, "text": text}))
    run.add_harness(pid + "-memblock", {"scenarios": len(recs), "checks": checks}, 0)
    run.coverage["traces_validated_against_impl"] += len(recs)
    return recs, res


@check("C14", "model_checking")
def check_c14(run):
    q = run.tier == "quick"
    recs, res = memblock_stage(run, "C14")
    run.coverage["evaluations"] += len(recs)
    run.coverage["distinct_nontrivial"] += sum(1 for x in recs if " 0 " in x)
    if recs:
        run.sample({"memblock_history": [r for r in res.lines if r.get("k") == "mem"][len(recs) // 2]})
    # cell and particle groups of real trees: byte copies viewed through the raw-memory constructors (after execution, so expansions are non-zero)
    # group containers with heterogeneous element types (multipole / local types of different sizes, data type != coordinate type, 0-4 result values)
    gv = need(build("groupview_asan", "groupview.cpp", [], variant="asan"), run)
    rc, out, err = run_bin(gv, [run.seed, 20 if q else 120], timeout=900)
    mism, summary = parse_harness_output(out)
    if summary is None:
        if rc in (98, 99) or "Sanitizer" in err or "runtime error" in err:
            first = [l for l in err.splitlines() if "ERROR: AddressSanitizer" in l or "runtime error" in l or "SUMMARY" in l]
            run.violation("Sanitizer:groupview", "sanitizer report while groups of heterogeneous types were copied and viewed: " + " | ".join(first[:3])[:400],
                          run.write_replay("Sanitizer-groupview", {"kind": "groupview", "args": [run.seed, 20 if q else 120]}))
        else:
            raise vlib.HarnessError("groupview failed (exit %s): %s" % (rc, (err or out)[-300:]))
    else:
        run.add_harness("C14-groupview", summary, rc)
        run.coverage["evaluations"] += summary.get("checks", 0)
        seen = set()
        for kind, key, text in mism:
            if key in seen:
                continue
            seen.add(key)
            run.violation(kind + ":" + key, text, run.write_replay(kind + "-" + key, {"kind": "groupview", "args": [run.seed, 20 if q else 120], "key": key}))
    run_fmm_configs(run, "C14", std_configs(run.tier, small=True)[:3] + [("1d-h5-multi", fmm_constants(1, 5, POOL_1D_H5[:5], maxper=2, bss=(1, 2, 20)))])
    run.coverage["rule"] = ("one case = one history (reset with a count vector; optionally a second reset that reuses / regrows the buffer, move construction+assignment, byte copy + raw-memory view) "
                            "of one of 8 sub-block layouts explored by TLC on MemBlock.tla (Disjoint, InBounds, AccessorInBlock, RowsDisjoint, Aligned, TrailerRoundTrip, NoDoubleFree) and replayed on "
                            "TbfMemoryBlock under AddressSanitizer: allocated size, offsets, trailer words, zero initialisation, non-aliasing accessors, move and view equivalence; plus byte-copy views of "
                            "every cell and particle group of the replayed FMM scenarios; non-trivial = a history containing a reuse, move or view")
    run.coverage["exhaustive"] = True
    run.assumptions += ["element sizes 1..4096 bytes and item counts up to the listed bounds (not 10^4); at most one sub-block takes an arbitrary count per reset",
                        "TbfMemoryMultiVVector is not instantiated by the library's containers and is not covered"]


# dense trees with the counting kernel: a fully occupied 6^Dim block (full sibling sets, maximal interaction lists - 189 sources per target in 3-D,
# 1215 in 4-D - delivered in one wrapper call or cut by small groups)
DENSE_CELLS = [dict(DIMV=4, REAL_T="double", ORDERV=0, AUTOBS=0, REBUILDV=0, EXECV=0, DENSEV=1), dict(DIMV=3, REAL_T="double", ORDERV=0, AUTOBS=0, REBUILDV=1, EXECV=0, DENSEV=1),
               dict(DIMV=4, REAL_T="double", ORDERV=0, AUTOBS=0, REBUILDV=0, EXECV=2, DENSEV=1)]


def matrix_cells(tier):
    """The documented template configurations, one translation unit each."""
    cells = []
    orders = [(0, "morton"), (1, "periodic"), (2, "hilbert")]
    if tier == "thorough":
        for dim in (1, 2, 3, 4):
            for real in ("float", "double"):
                for o, oname in orders:
                    if o == 2 and dim != 3:
                        continue
                    for autobs in (0, 1):
                        for reb in (0, 1):
                            for ex in (0, 1, 2):
                                if ex == 1 and o == 1:
                                    continue     # the periodic sequence is driven through the sequential executor in this unit
                                cells.append(dict(DIMV=dim, REAL_T=real, ORDERV=o, AUTOBS=autobs, REBUILDV=reb, EXECV=ex))
        for dim in (1, 2, 3, 4):
            cells.append(dict(DIMV=dim, REAL_T="float", DATA_T="double", ORDERV=0, AUTOBS=0, REBUILDV=1, EXECV=0))
            cells.append(dict(DIMV=dim, REAL_T="double", DATA_T="float", ORDERV=0, AUTOBS=1, REBUILDV=1, EXECV=2))
            cells.append(dict(DIMV=dim, REAL_T="double", ORDERV=0, AUTOBS=0, REBUILDV=0, EXECV=0, NRHS=0))
        return cells + DENSE_CELLS + [dict(DIMV=2, REAL_T="float", ORDERV=0, AUTOBS=0, REBUILDV=1, EXECV=0, DENSEV=1), dict(DIMV=3, REAL_T="double", ORDERV=0, AUTOBS=0, REBUILDV=0, EXECV=1, DENSEV=1),
                                     dict(DIMV=4, REAL_T="float", ORDERV=0, AUTOBS=0, REBUILDV=0, EXECV=1, DENSEV=1)]
    # quick: a covering subset - every dimension with every ordering, every pair (dimension, executor), (ordering, rebuild), (real type, auto block size)
    k = 0
    for dim in (1, 2, 3, 4):
        for o, oname in orders:
            if o == 2 and dim != 3:
                continue
            for ex in (0, 1, 2):
                if ex == 1 and o == 1:
                    continue
                cells.append(dict(DIMV=dim, REAL_T=("float", "double")[k % 2], ORDERV=o, AUTOBS=(k // 2) % 2, REBUILDV=(k // 3 + 1) % 2 if ex != 1 else 0, EXECV=ex))
                k += 1
    for dim in (1, 2, 3, 4):
        cells.append(dict(DIMV=dim, REAL_T="float", DATA_T="double", ORDERV=0, AUTOBS=dim % 2, REBUILDV=1, EXECV=0))
    cells.append(dict(DIMV=3, REAL_T="double", ORDERV=2, AUTOBS=1, REBUILDV=1, EXECV=0))
    cells.append(dict(DIMV=3, REAL_T="double", ORDERV=1, AUTOBS=1, REBUILDV=1, EXECV=2))
    cells.append(dict(DIMV=2, REAL_T="double", ORDERV=0, AUTOBS=0, REBUILDV=0, EXECV=0, NRHS=0))
    cells.append(dict(DIMV=3, REAL_T="float", ORDERV=0, AUTOBS=1, REBUILDV=0, EXECV=1, NRHS=0))
    cells.append(dict(DIMV=1, REAL_T="double", ORDERV=0, AUTOBS=0, REBUILDV=1, EXECV=0, NEXTRA=0))
    cells.append(dict(DIMV=2, REAL_T="float", ORDERV=0, AUTOBS=1, REBUILDV=1, EXECV=0, NEXTRA=0))
    return cells + DENSE_CELLS


def matrix_run(run, cells, iters, kinds=None):
    """Compile and run translation units of harness/matrix.cpp; report compile failures, crashes and mismatches (filtered by kinds)."""
    def cname(c):
        return "matrix_" + "_".join("%s%s" % (k[0].lower() + k[1:3].lower(), v) for k, v in sorted(c.items()))
    built = {}
    with ThreadPoolExecutor(max_workers=vlib.NCPU) as ex:
        futs = {cname(c): ex.submit(build, cname(c), "matrix.cpp", ["%s=%s" % kv for kv in c.items()], "plain", ("-UNDEBUG",)) for c in cells}
        for n, f in futs.items():
            built[n] = f.result()
    def runone(c):
        n = cname(c)
        path, err = built[n]
        if path is None:
            return n, c, None, err
        rc, out, errtxt = run_bin(path, [run.seed, iters], timeout=900, env={"OMP_NUM_THREADS": "4"})
        return n, c, (rc, out, errtxt), None
    with ThreadPoolExecutor(max_workers=8) as ex:
        results = list(ex.map(runone, cells))
    total_scn, ran = 0, 0
    for n, c, res, err in results:
        if res is None:
            log_txt = open(err).read()[-3000:] if err and os.path.exists(err) else ""
            first = [l for l in log_txt.splitlines() if "error" in l][:1]
            run.violation("compile:" + n, "configuration %s does not compile: %s" % (c, (first or ["see log"])[0][:240]), run.write_replay("compile-" + n, {"kind": "matrix", "cell": c, "log": log_txt}))
            continue
        rc, out, errtxt = res
        mism, summary = parse_harness_output(out)
        if summary is None:
            run.violation("crash:" + n, "configuration %s aborted (exit %s): %s" % (c, rc, (errtxt or out)[-300:].replace("\n", " ")), run.write_replay("crash-" + n, {"kind": "matrix", "cell": c, "stderr": errtxt[-2000:]}))
            continue
        total_scn += summary.get("scenarios", 0)
        ran += 1
        seen = set()
        for kind, key, text in mism:
            if kinds is not None and kind not in kinds:
                continue
            if (kind, n) in seen:
                continue
            seen.add((kind, n))
            run.violation(kind + ":" + key, text, run.write_replay(kind + "-" + n, {"kind": "matrix", "cell": c, "key": key, "text": text}))
    run.coverage["matrix_units_run"] = run.coverage.get("matrix_units_run", 0) + ran
    run.coverage["matrix_scenarios"] = run.coverage.get("matrix_scenarios", 0) + total_scn
    return total_scn, ran


REBUILD_CELLS = [dict(DIMV=1, REAL_T="float", ORDERV=0, AUTOBS=0, REBUILDV=1, EXECV=0), dict(DIMV=2, REAL_T="float", DATA_T="double", ORDERV=0, AUTOBS=0, REBUILDV=1, EXECV=0),
                 dict(DIMV=3, REAL_T="double", ORDERV=1, AUTOBS=0, REBUILDV=1, EXECV=0), dict(DIMV=3, REAL_T="double", ORDERV=2, AUTOBS=0, REBUILDV=1, EXECV=0),
                 dict(DIMV=2, REAL_T="double", ORDERV=0, AUTOBS=1, REBUILDV=1, EXECV=2), dict(DIMV=4, REAL_T="float", ORDERV=0, AUTOBS=0, REBUILDV=1, EXECV=0),
                 # more result values than data values per particle (coordinates only: 1 data value, 2 result values)
                 dict(DIMV=1, REAL_T="double", ORDERV=0, AUTOBS=0, REBUILDV=1, EXECV=0, NEXTRA=0)]


@check("C19", "exploration")
def check_c19(run):
    cells = matrix_cells(run.tier)
    iters = 30 if run.tier == "quick" else 120
    total_scn, ran = matrix_run(run, cells, iters)
    # the build configuration that enables OpenMP, Specx and StarPU at once (mock runtime headers): the selector header must compile
    sel, err = build("selector", "selector.cpp", [], "plain", ("-UNDEBUG", "-I" + os.path.join(vlib.HARNESS, "mock_specx"), "-I" + os.path.join(vlib.HARNESS, "mock_starpu")))
    if sel is None:
        log_txt = open(err).read()[-3000:] if err and os.path.exists(err) else ""
        first = [l for l in log_txt.splitlines() if "error" in l][:1]
        run.violation("compile:selector-openmp-specx-starpu", "the algorithm selector does not compile with OpenMP, Specx and StarPU all enabled: %s" % (first or ["see log"])[0][:240],
                      run.write_replay("compile-selector", {"kind": "selector", "log": log_txt}))
    else:
        rc, out, errtxt = run_bin(sel, [run.seed, iters], timeout=600)
        mism, summary = parse_harness_output(out)
        if summary is None:
            run.violation("crash:selector", "selector unit aborted (exit %s): %s" % (rc, (errtxt or out)[-300:]), run.write_replay("crash-selector", {"kind": "selector", "stderr": errtxt[-2000:]}))
        else:
            total_scn += summary.get("scenarios", 0)
            for kind, key, text in mism[:3]:
                run.violation(kind + ":" + key, text, run.write_replay(kind + "-selector", {"kind": "selector", "key": key, "text": text}))
            run.coverage["selector_selected"] = [l.split("=")[1] for l in out.splitlines() if l.startswith("INFO selected=")]
    run.coverage["evaluations"] = total_scn
    run.coverage["distinct_nontrivial"] = len(cells) + 1
    run.coverage["translation_units"] = len(cells)
    run.coverage["translation_units_run"] = ran
    run.coverage["samples"] = [{"cell": c} for c in cells[:4]]
    run.coverage["rule"] = ("one case = one translation unit of harness/matrix.cpp = one cell of {dimension 1-4} x {float, double coordinates} x {data type = or != coordinate type} x "
                            "{Morton, periodic Morton (with the periodic top tree), Hilbert 3-D} x {explicit, automatic block size incl. TBFMM_BLOCK_SIZE} x {with, without rebuild} x "
                            "{sequential, OpenMP (real libgomp, 4 threads), target/source} x {2, 0 result values}; each unit must compile (assertions on) and run %d seeded random scenarios with a "
                            "counting kernel: exactly-once counts and index sums, stored-once / right-leaf / bit-exact data, export, rebuild preserving results and doubling them after a second pass; "
                            "quick = a covering subset, thorough = the full product" % iters)
    run.assumptions += ["the build configuration that enables OpenMP, Specx and StarPU at once is compiled against API-compatible mock runtime headers (harness/mock_specx, harness/mock_starpu)",
                        "this check decides by compilation + conformance runs generated from seeds, not by TLC: the configuration space is a space of programs; the exactly-once / construction / rebuild oracles are the closed forms proved on the model by C01/C06/C13"]


@check("C15", "exploration")
def check_c15(run):
    """No UB on valid inputs: the scenarios, histories and schedules generated by TLC are re-run on builds with AddressSanitizer (leaks,
    stack-use-after-return), UndefinedBehaviorSanitizer, library assertions enabled and pattern-initialised automatic variables."""
    small = run.tier == "quick"
    cs = [("1d-h5", fmm_constants(1, 5, POOL_1D_H5[:6 if small else 9], bss=(1, 2, 3, 20), stops=(0, 2, 5), hists=("full", "stages3", "move2"))),
          ("2d-h4", fmm_constants(2, 4, POOL_2D_H4[:5 if small else 7], bss=(1, 2, 20), hists=("full", "move1"))),
          ("3d-h3", fmm_constants(3, 3, POOL_3D_H3[:4 if small else 6], bss=(1, 2, 20), hists=("full", "rebuild"))),
          ("4d-h3", fmm_constants(4, 3, POOL_4D_H3[:3 if small else 5], bss=(1, 2), hists=("full",))),
          ("tsm-1d-h4", fmm_constants(1, 4, range(4 if small else 6), mode="tsm", bss=(1, 2, 20))),
          ("per-1d-h4", fmm_constants(1, 4, [0, 3, 4, 7], periodic=True, stops=(1,), bss=(1, 2, 20))),
          ("per-2d-h3", fmm_constants(2, 3, [0, 5, 10, 15], periodic=True, stops=(1,), bss=(1, 20))),
          # the periodic top tree (its own stack arrays and virtual cells), single and target/source, dimensions 1-3
          ("per-1d-h3-top", fmm_constants(1, 3, range(4), periodic=True, maxparts=3, stops=(1,), bss=(1, 20), hists=("ptop",), aboves=(-1, 0, 1, 2))),
          ("per-2d-h2-top", fmm_constants(2, 2, range(4), periodic=True, maxparts=2, stops=(1,), bss=(1, 20), hists=("ptop",), aboves=(0, 1))),
          ("per-tsm-1d-h3-top", fmm_constants(1, 3, range(4), periodic=True, mode="tsm", maxparts=2, stops=(1,), bss=(1, 2), hists=("ptop",), aboves=(0, 1)))]
    if not small:
        cs.append(("per-3d-h2-top", fmm_constants(3, 2, [0, 3, 5, 7], periodic=True, maxparts=2, stops=(1,), bss=(1, 20), hists=("ptop",), aboves=(0,))))
    allk = sorted(set(k for v in KINDS.values() for k in v) | {"Sanitizer", "Crash"})
    def one(c):
        name, consts = c
        return name, fmm_campaign(run, "C15-" + name, consts, variant="asan", cap=1024 if "top" in name else 256 if consts["Periodic"] else 64)
    with ThreadPoolExecutor(max_workers=2) as ex:
        results = list(ex.map(one, cs))
    for name, (pairs, mism) in results:
        report_mismatches(run, "C15", "C15-" + name, pairs, mism, ["Sanitizer", "Crash"])
    for name, consts in omp_configs("quick")[:: (2 if small else 1)]:
        pairs, mism, _ = omp_campaign(run, "C15-omp-" + name, consts, "quick", variant="asan", graphs=0, limit=80 if small else 500)
        report_mismatches(run, "C15", "C15-omp-" + name, pairs, [(k, re.sub(r"-(immediate|deferred|tlc)-.*$", "", key), "%s [%s]" % (t, key)) for k, key, t in mism], ["Sanitizer", "Crash"])
    # ownership of raw buffers: MemBlock.tla's reset / reuse / move / view histories on TbfMemoryBlock under AddressSanitizer (leaks included)
    memblock_stage(run, "C15", only_sanitizer=True)
    # deep trees (indices of 40-62 bits): index arithmetic, level-dependent shifts and powers on the sanitizer build (GridDeep.tla's sampled cells)
    with ThreadPoolExecutor(max_workers=3) as ex:
        list(ex.map(lambda d: grid_deep(run, *d, variant="asan"), [(1, 40, False, 1), (1, 62, False, 1), (2, 30, False, 2), (3, 20, False, 64), (1, 45, True, 1)] if small else
                    [(1, 40, False, 1), (1, 62, False, 1), (1, 33, False, 1), (2, 30, False, 1), (2, 31, False, 1), (3, 20, False, 8), (4, 15, False, 1), (1, 45, True, 1), (2, 31, True, 1), (3, 20, True, 8)]))
    # sessions on large random and on dense trees (full interaction lists: the wrappers' stack arrays are filled to capacity) recorded on the sanitizer build,
    # with look-ups, staged executes, moves and rebuild; the traces are validated by TLC as in C01
    trace_campaign(run, "C15", run.tier, modes=(0, 1), events=7, variant="asan")
    trace_campaign(run, "C15", run.tier, events=8, classes=DENSE_CLASSES[run.tier], variant="asan")
    run.coverage["rule"] = ("one case = one TLC-generated scenario (tree, history of execute/move/rebuild calls, for the task executors each of 6 schedules incl. full deferral) "
                            "executed on a -fsanitize=address,undefined -UNDEBUG -ftrivial-auto-var-init=pattern build with leak detection and detect_stack_use_after_return; "
                            "a sanitizer report, a failed library assertion or a fault is the violation; non-trivial = at least two occupied leaves and two groups at some level")
    run.assumptions += ["the model contributes inputs, histories and schedules and the invariants BatchWithinCapacity / NoAssertFail; undefined behaviour itself is observed by the sanitizers, not by TLC",
                        "MSan/valgrind are not part of the quick tier"]


# =====================================================================================================
# command line
# =====================================================================================================
def cmd_setup(args):
    ok = True
    for tool in ["java", "g++", "timeout"]:
        if shutil.which(tool) is None:
            log("setup: missing tool " + tool)
            ok = False
    for f in sorted(os.listdir(vlib.SPEC)):
        if f.endswith(".tla"):
            p = subprocess.run(["java", "-cp", vlib.TLA_CP, "tla2sany.SANY", os.path.join(vlib.SPEC, f)], stdout=subprocess.PIPE, stderr=subprocess.STDOUT, text=True, cwd=vlib.SPEC)
            if p.returncode != 0 or "*** Errors" in p.stdout or "Fatal errors" in p.stdout:
                log("setup: SANY rejects %s\n%s" % (f, p.stdout[-800:]))
                ok = False
    os.makedirs(CACHE, exist_ok=True)
    log("setup: " + ("ok" if ok else "FAILED"))
    return 0 if ok else 2


def cmd_check(args):
    pid = args.property
    if pid not in CHECKS:
        log("no check registered for " + pid)
        return 2
    fn, level = CHECKS[pid]
    tier = args.tier or os.environ.get("VERIF_TIER", "quick")
    run = Run(pid, tier, level)
    run.no_evidence = bool(getattr(args, "no_evidence", False))
    try:
        fn(run)
    except vlib.HarnessError as e:
        run.machinery_errors.append(str(e))
    vlib.prune_cache()
    return run.finish()


def cmd_replay(args):
    with open(args.path) as f:
        obj = json.load(f)
    pid = obj.get("property")
    log("replay %s: %s" % (pid, json.dumps({k: v for k, v in obj.items() if k not in ("expected", "observed")})[:600]))
    if obj.get("kind") == "grid":
        run = Run(pid, "quick", "model_checking")
        name, ncell, summary, viol, _ = grid_one(run, obj["dim"], obj["height"], obj["periodic"], obj["order"])
        hit = [v for v in viol if v[0] == obj.get("key")]
        for key, text, _ in (hit or viol)[:10]:
            log("REPRODUCED %s: %s" % (key, text))
        return 1 if hit or viol else 0
    if obj.get("kind") == "selector":
        sel, err = build("selector", "selector.cpp", [], "plain", ("-UNDEBUG", "-I" + os.path.join(vlib.HARNESS, "mock_specx"), "-I" + os.path.join(vlib.HARNESS, "mock_starpu")))
        if sel is None:
            print(open(err).read()[-3000:])
            return 1
        rc, out, errtxt = run_bin(sel, [os.environ.get("VERIF_SEED", "1"), 30])
        print(out[-2000:], errtxt[-500:])
        return 1 if rc != 0 else 0
    if obj.get("kind") == "matrix":
        c = obj["cell"]
        name = "matrix_replay"
        path, err = build(name + "_" + vlib.sha(json.dumps(c, sort_keys=True)), "matrix.cpp", ["%s=%s" % kv for kv in c.items()], "plain", ("-UNDEBUG",))
        if path is None:
            print(open(err).read()[-3000:])
            return 1
        rc, out, errtxt = run_bin(path, [os.environ.get("VERIF_SEED", "1"), 30], env={"OMP_NUM_THREADS": "4"})
        print(out[-3000:], errtxt[-1000:])
        return 1 if rc != 0 else 0
    if obj.get("kind") == "task":
        binp, err = task_replay_binary(obj["dim"], obj["periodic"], obj.get("cap", 64), obj.get("variant", "plain"), obj.get("runtime", "omp"))
        if binp is None:
            log("harness does not compile: " + str(err))
            return 2
        rc, out, errtxt = run_bin(binp, ["thorough"] if obj.get("tier") == "thorough" else [], stdin_text=obj["record"] + "\n", timeout=900)
        print(out[-3000:], errtxt[-1500:])
        mism, summary = parse_harness_output(out)
        return 1 if mism or rc not in (0,) else 0
    if obj.get("kind") == "realkern":
        binp, err = build("realkern", "realkern.cpp", ["DIMV=3", "PERIODICV=0", "CAPV=64"], extra=("-lfftw3", "-lfftw3f"))
        if binp is None:
            log("harness does not compile: " + str(err))
            return 2
        rc, out, errtxt = run_bin(binp, [], stdin_text="\n".join(obj.get("records") or [obj["record"]]) + "\n", timeout=900)
        print(out[-3000:], errtxt[-1500:])
        mism, summary = parse_harness_output(out)
        return 1 if mism or rc not in (0,) else 0
    if obj.get("kind") == "fmm":
        cap, variant, tsmwrap = obj.get("cap", 64), obj.get("variant", "plain"), obj.get("tsmwrap", 0)
        binp, err = build("replay_fmm_%d_%d_%d%s%s" % (obj["dim"], int(obj["periodic"]), cap, "_asan" if variant == "asan" else "", ("_tsmwrap%d" % tsmwrap) if tsmwrap else ""), "replay_fmm.cpp",
                          ["DIMV=%d" % obj["dim"], "PERIODICV=%d" % int(obj["periodic"]), "CAPV=%d" % cap] + (["TSMWRAPV=%d" % tsmwrap] if tsmwrap else []), variant=variant)
        if binp is None:
            log("harness does not compile: " + str(err))
            return 2
        rc, out, err = run_bin(binp, [], stdin_text=obj["record"] + "\n")
        print(out[-3000:])
        mism, summary = parse_harness_output(out)
        return 1 if mism else 0
    if obj.get("kind") == "groupview":
        gv, err = build("groupview_asan", "groupview.cpp", [], variant="asan")
        if gv is None:
            log("harness does not compile: " + str(err))
            return 2
        rc, out, errtxt = run_bin(gv, obj["args"], timeout=900)
        print("\n".join([l for l in out.splitlines() if obj.get("key", "MISMATCH") in l][:10]), out[-300:], errtxt[-1500:])
        return 1 if rc != 0 else 0
    if obj.get("kind") == "tsmwrap":
        path, err = build("replay_fmm_%d_0_64_tsmwrap%d" % (obj["dim"], obj["v"]), "replay_fmm.cpp", ["DIMV=%d" % obj["dim"], "PERIODICV=0", "CAPV=64", "TSMWRAPV=%d" % obj["v"]])
        if path is None:
            print("\n".join([l for l in open(err).read().splitlines() if "error" in l][:10]))
            return 1
        return 0
    if obj.get("kind") == "record":
        binp, err = build("record_fmm_%d_%d%s" % (obj["dim"], int(obj["periodic"]), "_asan" if obj.get("variant") == "asan" else ""), "record_fmm.cpp",
                          ["DIMV=%d" % obj["dim"], "PERIODICV=%d" % int(obj["periodic"]), "CAPV=1024"], variant=obj.get("variant", "plain"))
        if binp is None:
            log("harness does not compile: " + str(err))
            return 2
        rc, out, errtxt = run_bin(binp, obj["args"], timeout=900)
        print(errtxt[-3000:], out[-300:] if rc == 3 else "")
        return 1 if rc != 0 else 0
    if obj.get("kind") == "trace":
        consts = dict(Dim=obj["dim"], Height=obj["height"], Periodic=obj["periodic"], Mode="tsm" if obj["mode"] else "single", Pool={0}, MaxPerLeaf=1, MaxParts=1, BlockSizes={1},
                      GroupModes="{FALSE}", StopLevels={2}, Histories='{"full"}', AboveLevelsP1={0}, EmitJson=False, Shard=0, NbShards=1)
        res = run_tlc("FmmTrace", cfg("TraceSpec", consts, [], [], extra="POSTCONDITION Accepted"), env={"TRACE": obj["trace"]}, workers=1, timeout=900, tag="replay", keep_json=False)
        txt = open(res.logpath).read()
        m = re.search(r"The depth of the complete state graph search is (\d+)", txt)
        print("consumed %s events; rejected line %s: %s" % (int(m.group(1)) - 1 if m else "?", obj.get("rejected_line"), obj.get("event")))
        return 1
    log("unknown replay kind")
    return 2


def cmd_selftest(args):
    """Demonstrates that the binding binds (not a registered check):
       (a) a recorded trace is accepted; the same trace with one corrupted code / one dropped call / one duplicated call is rejected by TLC
           at exactly that event;
       (b) each seeded change under seeded/ is applied to a scratch copy of /repo (outside /repo and /verif) and the owning quick check
           must report a VIOLATION (run with --mutants)."""
    run = Run("SELFTEST", "quick", "other")
    binp = need(build("record_fmm_2_0", "record_fmm.cpp", ["DIMV=2", "PERIODICV=0", "CAPV=1024"]), run)
    rc, out, err = run_bin(binp, [5, 7, 4, 25, 0])
    lines = out.splitlines()
    consts = dict(Dim=2, Height=5, Periodic=False, Mode="single", Pool={0}, MaxPerLeaf=1, MaxParts=1, BlockSizes={1}, GroupModes="{FALSE}", StopLevels={2},
                  Histories='{"full"}', AboveLevelsP1={0}, EmitJson=False, Shard=0, NbShards=1)
    def consumed(ls, tag):
        tp = os.path.join(CACHE, "traces", "selftest-%s.ndjson" % tag)
        os.makedirs(os.path.dirname(tp), exist_ok=True)
        open(tp, "w").write("\n".join(ls) + "\n")
        res = run_tlc("FmmTrace", cfg("TraceSpec", consts, [], [], extra="POSTCONDITION Accepted"), env={"TRACE": tp}, workers=1, timeout=600, tag="selftest-" + tag, keep_json=False)
        m = re.search(r"The depth of the complete state graph search is (\d+)", open(res.logpath).read())
        return int(m.group(1)) - 1 if m else -1
    ok = True
    n = consumed(lines, "clean")
    log("selftest: clean trace: %d of %d events accepted" % (n, len(lines)))
    ok &= n == len(lines)
    # corrupt one position code of an M2L in the middle
    idx = [k for k, l in enumerate(lines) if l.startswith('{"e":"M2L"')][len(lines) // 40]
    ev = json.loads(lines[idx]); ev["c"][0] = (ev["c"][0] + 1) % 49
    bad = lines[:idx] + [json.dumps(ev)] + lines[idx + 1:]
    n = consumed(bad, "code")
    log("selftest: M2L code corrupted at event %d -> TLC consumed %d events (%s)" % (idx + 1, n, "rejected there" if n == idx else "NOT rejected where expected"))
    ok &= n == idx
    # wrong level in an M2M
    idx = [k for k, l in enumerate(lines) if l.startswith('{"e":"M2M"')][3]
    ev = json.loads(lines[idx]); ev["l"] += 1
    n = consumed(lines[:idx] + [json.dumps(ev)] + lines[idx + 1:], "level")
    log("selftest: M2M level corrupted at event %d -> consumed %d (%s)" % (idx + 1, n, "rejected there" if n == idx else "NOT rejected where expected"))
    ok &= n == idx
    # a dropped call is detected at the first call that reads the incomplete expansion, or at End at the latest
    idx = [k for k, l in enumerate(lines) if l.startswith('{"e":"P2M"')][1]
    n = consumed(lines[:idx] + lines[idx + 1:], "dropped")
    log("selftest: P2M call %d dropped -> consumed %d of %d (%s)" % (idx + 1, n, len(lines) - 1, "rejected" if n < len(lines) - 1 else "NOT rejected"))
    ok &= n < len(lines) - 1
    # a duplicated call is rejected at the duplicate
    idx = [k for k, l in enumerate(lines) if l.startswith('{"e":"P2P"')][0]
    n = consumed(lines[:idx + 1] + [lines[idx]] + lines[idx + 1:], "dup")
    log("selftest: P2P call %d duplicated -> consumed %d (%s)" % (idx + 1, n, "rejected at the duplicate" if n == idx + 1 else "NOT rejected where expected"))
    ok &= n == idx + 1
    # sessions with group structures, look-ups and move / rebuild / second pass
    rc, out, err = run_bin(binp, [5, 11, 8, 25, 0, 7])
    lines = out.splitlines()
    n = consumed(lines, "ev7-clean")
    log("selftest: clean session trace with Tree / Find / Rebuild events: %d of %d events accepted" % (n, len(lines)))
    ok &= n == len(lines)
    for k, l in enumerate(lines):            # a cell moved from one group to the next in a recorded group structure
        if l.startswith('{"e":"Tree"'):
            ev = json.loads(l)
            lv = [x for x in range(len(ev["groups"])) if len(ev["groups"][x]) >= 2 and len(ev["groups"][x][0]) >= 2]
            if lv:
                g = ev["groups"][lv[0]]; g[1].insert(0, g[0].pop()); idx = k
                break
    n = consumed(lines[:idx] + [json.dumps(ev)] + lines[idx + 1:], "ev7-tree")
    log("selftest: group boundary shifted in the Tree event %d -> consumed %d (%s)" % (idx + 1, n, "rejected there" if n == idx else "NOT rejected where expected"))
    ok &= n == idx
    idx = [k for k, l in enumerate(lines) if l.startswith('{"e":"Find"') and '"g":0' not in l][5]
    ev = json.loads(lines[idx]); ev["p"] += 1
    n = consumed(lines[:idx] + [json.dumps(ev)] + lines[idx + 1:], "ev7-find")
    log("selftest: position altered in the Find event %d -> consumed %d (%s)" % (idx + 1, n, "rejected there" if n == idx else "NOT rejected where expected"))
    ok &= n == idx
    idx = [k for k, l in enumerate(lines) if l.startswith('{"e":"Find"') and '"g":0' in l][2]
    ev = json.loads(lines[idx]); ev["g"] = 1; ev["p"] = 1
    n = consumed(lines[:idx] + [json.dumps(ev)] + lines[idx + 1:], "ev7-find2")
    log("selftest: a look-up of an absent cell reported as found (event %d) -> consumed %d (%s)" % (idx + 1, n, "rejected there" if n == idx else "NOT rejected where expected"))
    ok &= n == idx
    idx = [k for k, l in enumerate(lines) if l.startswith('{"e":"Rebuild"')][0]
    n = consumed(lines[:idx] + lines[idx + 1:], "ev7-norebuild")
    log("selftest: Rebuild event %d dropped (second pass on a stale occupancy) -> consumed %d of %d (%s)" % (idx + 1, n, len(lines) - 1, "rejected" if n < len(lines) - 1 else "NOT rejected"))
    ok &= n < len(lines) - 1
    if getattr(args, "mutants", False):
        sd = os.path.join(VERIF, "seeded")
        scratch = os.path.join(os.environ.get("TMPDIR", "/tmp"), "verif-selftest-%d" % os.getpid())
        only = os.environ.get("VERIF_SELFTEST_ONLY")       # optional regular expression on the seeded directory names
        for name in sorted(os.listdir(sd)) if os.path.isdir(sd) else []:
            if only and not re.search(only, name):
                continue
            meta_p = os.path.join(sd, name, "meta.json")
            if not os.path.exists(meta_p):
                continue
            meta = json.load(open(meta_p))
            shutil.rmtree(scratch, ignore_errors=True)
            os.makedirs(scratch)
            shutil.copytree(os.path.join(REPO, "src"), os.path.join(scratch, "src"))
            p = subprocess.run(["patch", "-p1", "-s", "-d", scratch, "-i", os.path.join(sd, name, "patch.diff")], stdout=subprocess.PIPE, stderr=subprocess.STDOUT, text=True)
            if p.returncode != 0:
                log("selftest: %s: patch does not apply to the current tree (%s)" % (name, p.stdout.strip()[:100]))
                continue
            hits, misses = [], []
            for pid in meta.get("caught_by", [meta["property"]]):
                e = dict(os.environ, VERIF_REPO=scratch)
                q = subprocess.run([sys.executable, os.path.join(VERIF, "verif.py"), "check", pid, "--tier", "quick", "--no-evidence"], stdout=subprocess.PIPE, stderr=subprocess.STDOUT, text=True, env=e)
                (hits if q.returncode == 1 and "VIOLATION property=" + pid in q.stdout else misses).append(pid)
            log("selftest: seeded change %s (%s): detected by %s%s" % (name, meta["property"], ",".join(hits) or "NOTHING", (" ; claimed but NOT detected by " + ",".join(misses)) if misses else ""))
            ok &= bool(hits) and not misses
            shutil.rmtree(scratch, ignore_errors=True)
    log("selftest: " + ("ok" if ok else "FAILED"))
    return 0 if ok else 1


def main():
    ap = argparse.ArgumentParser()
    sub = ap.add_subparsers(dest="cmd")
    sub.add_parser("setup")
    c = sub.add_parser("check")
    c.add_argument("property")
    c.add_argument("--tier", choices=["quick", "thorough"])
    r = sub.add_parser("replay")
    r.add_argument("path")
    st = sub.add_parser("selftest")
    st.add_argument("--mutants", action="store_true")
    c.add_argument("--no-evidence", action="store_true", help="do not rewrite evidence/<id>.json (used by selftest on scratch copies)")
    args = ap.parse_args()
    if args.cmd == "setup":
        sys.exit(cmd_setup(args))
    if args.cmd == "check":
        sys.exit(cmd_check(args))
    if args.cmd == "replay":
        sys.exit(cmd_replay(args))
    if args.cmd == "selftest":
        sys.exit(cmd_selftest(args))
    ap.print_help()
    sys.exit(2)


if __name__ == "__main__":
    main()
