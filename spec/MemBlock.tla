------------------------------ MODULE MemBlock ------------------------------
(***************************************************************************)
(* L5 - self-describing flat buffers (src/containers/tbfmemoryblock.hpp    *)
(* with the block kinds tbfmemoryscalar / tbfmemoryvector /                *)
(* tbfmemorymultirvector).                                                 *)
(*                                                                         *)
(* A memory block is ONE allocation holding NB sub-blocks back to back,    *)
(* each rounded up to the alignment, followed - at the very end of the     *)
(* ALLOCATION, which may be larger than needed when a buffer is reused -   *)
(* by a trailer of 2*NB machine words: the NB byte offsets of the          *)
(* sub-blocks, then their NB item counts.  A raw-memory view re-derives    *)
(* everything from the trailer of a byte copy.                             *)
(*                                                                         *)
(* Sub-block kinds (Layout[b].kind):                                       *)
(*   "scalar": exactly one item;   "vector": n items, one row;             *)
(*   "multir": rows x n items, each row padded to the alignment            *)
(*             (leading dimension = LeadingDim(elem, n));                  *)
(*   "multiv": n columns of `rows` items, each column padded to the        *)
(*             alignment (tbfmemorymultivvector.hpp).                      *)
(* The state machine follows the life cycle of one object: reset (with     *)
(* reuse when the old allocation is large enough), move to another object, *)
(* byte copy + view.  Bytes are abstracted to byte RANGES; every accessor  *)
(* of the code is a range of Elem(b) bytes inside the range of block b.    *)
(***************************************************************************)
EXTENDS Naturals, Integers, Sequences, FiniteSets, TLC, Json, FiniteSetsExt
CONSTANTS Align,        \* alignment in bytes (TbfDefaultMemoryAlignement = 64)
          Word,         \* sizeof(long int) = 8
          MaxItems,     \* item counts explored: 0..MaxItems (and the special counts in ExtraCounts)
          ExtraCounts,  \* additional counts (rows ending exactly on / just past an alignment boundary)
          MaxOps, Shard, NbShards, EmitJson

\* The menu of layouts under test; harness/replay_mem.cpp instantiates TbfMemoryBlock with exactly these sub-block lists.
\* 2 and 3 are the symbolic buffers of cell and particle groups in three dimensions, 4 a particle result buffer.
B(k, e, r) == [kind |-> k, elem |-> e, rows |-> r]
Layouts == << << B("vector", 1, 1) >>,
              << B("scalar", 24, 1), B("vector", 32, 1) >>,
              << B("scalar", 32, 1), B("vector", 48, 1), B("vector", 8, 1), B("multir", 8, 4) >>,
              << B("multir", 8, 1) >>,
              << B("vector", 3, 1), B("vector", 2, 1) >>,
              << B("multir", 16, 3), B("vector", 8, 1) >>,
              << B("vector", 4096, 1) >>,
              << B("scalar", 1, 1), B("multir", 1, 2), B("vector", 24, 1), B("multir", 64, 2) >>,
              << B("multiv", 8, 3) >>,
              << B("vector", 3, 1), B("multiv", 16, 5), B("multiv", 1, 65) >> >>
Counts == (0..MaxItems) \cup ExtraCounts
SmallCounts == {0, 2, MaxItems} \cup { x \in ExtraCounts : x % 2 = 1 }
LeadingDim(elem, n) == ((elem * n + Align - 1) \div Align) * Align
NB(L) == Len(Layouts[L])
BlockSize(L, b, n) == LET d == Layouts[L][b] IN
    CASE d.kind = "scalar" -> LeadingDim(d.elem, 1)
      [] d.kind = "vector" -> LeadingDim(d.elem, n)
      [] d.kind = "multir" -> d.rows * LeadingDim(d.elem, n)
      [] d.kind = "multiv" -> n * LeadingDim(d.elem, d.rows)     \* column major: every item is a padded column of `rows` elements
\* offsets of the sub-blocks (GetSizeAndOffsetOfBlocks)
Offsets(L, cnt) == LET RECURSIVE O(_)
                       O(b) == IF b = 1 THEN 0 ELSE O(b-1) + BlockSize(L, b-1, cnt[b-1])
                   IN [b \in 1..NB(L) |-> O(b)]
PayloadEnd(L, cnt) == Offsets(L, cnt)[NB(L)] + BlockSize(L, NB(L), cnt[NB(L)])
Needed(L, cnt) == PayloadEnd(L, cnt) + 2 * Word * NB(L)
\* admissible count vectors: a scalar block holds exactly one item
\* (to bound the exploration, at most one sub-block takes an arbitrary count, the others are empty or hold 3 items)
OneFree(c, L) == Cardinality({ b \in 1..NB(L) : Layouts[L][b].kind # "scalar" /\ c[b] \notin {0, 3} }) <= 1
CountVectors(L) == { c \in [1..NB(L) -> Counts \cup {1}] : OneFree(c, L) /\ \A b \in 1..NB(L) : Layouts[L][b].kind = "scalar" => c[b] = 1 }
\* later resets (shrinking / growing an existing buffer) draw from a smaller set to bound the exploration
SmallVectors(L) == { c \in [1..NB(L) -> SmallCounts \cup {1, 3}] : OneFree(c, L) /\ \A b \in 1..NB(L) : Layouts[L][b].kind = "scalar" => c[b] = 1 }

VARIABLES L,        \* layout under test
          alloc,    \* allocated size of the object's buffer (0 = no buffer)
          owns,     \* the object owns (will free) its buffer
          cnt,      \* item counts recorded in the trailer
          offs,     \* offsets recorded in the trailer
          hist,     \* operations performed (for the replay)
          freed     \* number of buffers released so far / number allocated: <<allocated, released>>
vars == <<L, alloc, owns, cnt, offs, hist, freed>>

Init == /\ L \in { x \in 1..Len(Layouts) : x % NbShards = Shard }
        /\ alloc = 0 /\ owns = FALSE /\ cnt = <<>> /\ offs = <<>> /\ hist = <<>> /\ freed = <<0, 0>>

(* resetBlocksFromSizes: reuse the buffer when it is owned and large       *)
(* enough, otherwise release it (if owned) and allocate exactly Needed.    *)
Reset(c) == /\ Len(hist) < MaxOps /\ Len(hist) <= 1     \* at most two resets (fresh, then reuse / regrow) per history
            /\ LET need == Needed(L, c)
                   reuse == owns /\ alloc >= need IN
               /\ alloc' = IF reuse THEN alloc ELSE need
               /\ freed' = IF reuse THEN freed ELSE <<freed[1] + 1, freed[2] + (IF owns THEN 1 ELSE 0)>>
            /\ owns' = TRUE /\ cnt' = c /\ offs' = Offsets(L, c)
            /\ hist' = Append(hist, [op |-> "reset", counts |-> c, alloc |-> alloc', offs |-> Offsets(L, c)])
            /\ UNCHANGED L
(* move construction / assignment into a fresh object: the state travels,  *)
(* the source keeps nothing (so nothing is released twice).                *)
Move == /\ Len(hist) < MaxOps /\ alloc > 0
        /\ hist' = Append(hist, [op |-> "move", counts |-> cnt, alloc |-> alloc, offs |-> offs])
        /\ UNCHANGED <<L, alloc, owns, cnt, offs, freed>>
(* byte copy of the whole allocation viewed through the raw-memory         *)
(* constructor: a non-owning object whose header is re-derived from the    *)
(* trailer found at the end of the copied bytes.                           *)
View == /\ Len(hist) < MaxOps /\ alloc > 0
        /\ hist' = Append(hist, [op |-> "view", counts |-> cnt, alloc |-> alloc, offs |-> offs])
        /\ UNCHANGED <<L, alloc, owns, cnt, offs, freed>>
Next == (\E c \in (IF hist = <<>> THEN CountVectors(L) ELSE SmallVectors(L)) : Reset(c)) \/ Move \/ View
Spec == Init /\ [][Next]_vars

(***************************************************************************)
(* C14 invariants.                                                         *)
(***************************************************************************)
Blocks == 1..NB(L)
BRange(b) == <<offs[b], offs[b] + BlockSize(L, b, cnt[b])>>          \* [from, to)
TrailerRange == <<alloc - 2 * Word * NB(L), alloc>>
Overlap(r1, r2) == r1[1] < r2[2] /\ r2[1] < r1[2]
Live == alloc > 0
\* blocks of different kinds never overlap, and none overlaps the trailer
Disjoint == Live => /\ \A a, b \in Blocks : a # b => ~Overlap(BRange(a), BRange(b))
                    /\ \A b \in Blocks : ~Overlap(BRange(b), TrailerRange)
\* everything lies inside the allocation; the trailer is where a view will look for it
InBounds == Live => /\ \A b \in Blocks : BRange(b)[1] >= 0 /\ BRange(b)[2] <= alloc
                    /\ TrailerRange[1] >= 0
                    /\ alloc >= Needed(L, cnt)
\* every element accessor (block b, row r, item i) stays inside its block
AccessorInBlock == Live => \A b \in Blocks :
    LET d == Layouts[L][b]
        rows == IF d.kind = "multir" THEN d.rows ELSE 1
        ld == IF d.kind = "multir" THEN LeadingDim(d.elem, cnt[b]) ELSE 0 IN
    IF d.kind = "multiv"
    THEN cnt[b] > 0 => LET cld == LeadingDim(d.elem, d.rows) IN
                       offs[b] + (cnt[b] - 1) * cld + d.rows * d.elem <= BRange(b)[2]
    ELSE
    \A r \in 0..(rows-1) : cnt[b] > 0 =>
        LET first == offs[b] + r * ld
            last == offs[b] + r * ld + (cnt[b] - 1) * d.elem + d.elem IN
        first >= BRange(b)[1] /\ last <= BRange(b)[2]
\* rows of a multi-row block never overlap each other
RowsDisjoint == Live => \A b \in Blocks : /\ Layouts[L][b].kind = "multir" => LeadingDim(Layouts[L][b].elem, cnt[b]) >= Layouts[L][b].elem * cnt[b]
                                          /\ Layouts[L][b].kind = "multiv" => LeadingDim(Layouts[L][b].elem, Layouts[L][b].rows) >= Layouts[L][b].elem * Layouts[L][b].rows
\* offsets are aligned (every block starts on an alignment boundary of the buffer)
Aligned == Live => \A b \in Blocks : offs[b] % Align = 0
\* what a view reads back from the trailer is what was written
TrailerRoundTrip == Live => offs = Offsets(L, cnt)
\* no buffer is released twice, at most one is outstanding
NoDoubleFree == freed[2] <= freed[1] /\ freed[1] - freed[2] <= 1

Emit == (EmitJson /\ Len(hist) = MaxOps) =>
   PrintT(ToJson([k |-> "mem", layout |-> L, ops |-> hist]))
=============================================================================
