------------------------------ MODULE TaskExec ------------------------------
(***************************************************************************)
(* L4' - the SUBMISSION PROGRAM of the task-based executors                *)
(* (TbfOpenmpAlgorithm(/Tsm), TbfSmSpecxAlgorithm(/Tsm),                   *)
(* TbfSmStarpuAlgorithm(/Tsm)): which tasks one execute(flags) creates,    *)
(* in which order, with which declared accesses, and what a conforming     *)
(* runtime may then do.                                                    *)
(*                                                                         *)
(* The executors walk the groups exactly like the sequential executor      *)
(* (Fmm!Program: the same cursors, the same list mapping) but wrap every   *)
(* wrapper call into one task - P2PInGroup and P2PInner of a group share   *)
(* one task - and declare, per task, READ access to the first byte of the  *)
(* group buffers it reads and COMMUTATIVE-WRITE access (OpenMP `commute`,  *)
(* Specx SpCommutativeWrite, StarPU RW|COMMUTE) to the group buffers it    *)
(* accumulates into:                                                       *)
(*    P2M(g)         read pd(g)               write mp(leaf level, g)      *)
(*    M2M(l, lg, ug) read mp(l+1, lg)         write mp(l, ug)              *)
(*    M2L in group   read mp(l, g)            write lo(l, g)               *)
(*    M2L between    read mp(l, sg)           write lo(l, g)               *)
(*    L2L(l, lg, ug) read lo(l, ug)           write lo(l+1, lg)            *)
(*    L2P(g)         read lo(leaf, g), pd(g)  write pr(g)                  *)
(*    P2P between    read pd(sg), pd(g)       write pr(sg), pr(g)          *)
(*                   (target/source: write pr(g) only)                     *)
(*    P2P in group + inner  read pd(g)        write pr(g)                  *)
(* The master thread submits in program order and waits for all tasks at   *)
(* the end of execute().  Runtime semantics (the one TaskRuntime.tla       *)
(* explores on RECORDED graphs): a task waits for every EARLIER task that  *)
(* declared a conflicting access to a common handle, where read/read and   *)
(* commute/commute do not conflict; commute/commute tasks exclude each     *)
(* other (tasks are atomic steps here, so exclusion is built in).          *)
(*                                                                         *)
(* What TLC decides here, for every tree of the bounded pools and EVERY    *)
(* order a conforming runtime may choose:                                  *)
(*   - each task, when it runs, is an enabled batch of the dataflow layer  *)
(*     (nothing twice, no expansion read before it is complete) -          *)
(*     Fmm!NoAssertFail;                                                   *)
(*   - the final state is the closed form (MultipoleDef, LocalDef, RhsDef, *)
(*     ExactlyOnce, counters, elementary digest): every schedule gives the *)
(*     sequential result;                                                  *)
(*   - DeclaredCoversActual: every group buffer a task touches is one it   *)
(*     declared, written ones as commutative writes;                       *)
(*   - ConflictsOrdered: two tasks with conflicting footprints are ordered *)
(*     by the declared dependences or are both commutative writers;        *)
(*   - Terminates: the graph has no cycle, every task eventually runs.     *)
(* The model graph is printed per scenario and compared with the graph     *)
(* RECORDED from the real executors through the mock runtimes.             *)
(***************************************************************************)
EXTENDS Fmm
VARIABLE done        \* positions (in pcs) of the tasks of the current execute() that have run
tvars == <<vars, done>>

TreeTagS == IF Tsm THEN "s" ELSE "x"
TreeTagT == IF Tsm THEN "t" ELSE "x"

\* ---- tasks of the execute() in progress (pcs holds ALL its wrapper calls until the final wait) ------------------
IsInnerTail(calls, i) == i > 1 /\ calls[i].op = "P2PInner" /\ calls[i-1].op = "P2PI" /\ calls[i-1].g = calls[i].g
TaskIds == { i \in 1..Len(pcs) : ~IsInnerTail(pcs, i) }
CallsOf(i) == IF i < Len(pcs) /\ IsInnerTail(pcs, i + 1) THEN <<pcs[i], pcs[i+1]>> ELSE <<pcs[i]>>
TaskBatch(i) == UNION { Batch(CallsOf(i)[k]) : k \in 1..Len(CallsOf(i)) }

\* ---- declared accesses ------------------------------------------------------------------------------------------
Ins(c) == CASE c.op = "P2M"  -> { <<"pd", TreeTagS, c.g>> }
            [] c.op = "L2P"  -> { <<"lo", LeafLevel, c.g>>, <<"pd", TreeTagT, c.g>> }
            [] c.op = "M2M"  -> { <<"mp", c.l + 1, c.lg>> }
            [] c.op = "L2L"  -> { <<"lo", c.l, c.ug>> }
            [] c.op = "M2LI" -> { <<"mp", c.l, c.g>> }
            [] c.op = "M2LB" -> { <<"mp", c.l, c.sg>> }
            [] c.op = "P2PB" -> { <<"pd", TreeTagS, c.sg>>, <<"pd", TreeTagT, c.g>> }
            [] OTHER         -> { <<"pd", TreeTagT, c.g>> }                     \* P2PI, P2PInner
Muts(c) == CASE c.op = "P2M"  -> { <<"mp", LeafLevel, c.g>> }
            [] c.op = "L2P"  -> { <<"pr", TreeTagT, c.g>> }
            [] c.op = "M2M"  -> { <<"mp", c.l, c.ug>> }
            [] c.op = "L2L"  -> { <<"lo", c.l + 1, c.lg>> }
            [] c.op \in {"M2LI", "M2LB"} -> { <<"lo", c.l, c.g>> }
            [] c.op = "P2PB" -> IF Tsm THEN { <<"pr", TreeTagT, c.g>> } ELSE { <<"pr", TreeTagS, c.sg>>, <<"pr", TreeTagT, c.g>> }
            [] OTHER         -> { <<"pr", TreeTagT, c.g>> }
TaskIns(i)  == UNION { Ins(CallsOf(i)[k]) : k \in 1..Len(CallsOf(i)) }
TaskMuts(i) == UNION { Muts(CallsOf(i)[k]) : k \in 1..Len(CallsOf(i)) }

\* ---- actual footprints at the grain of group buffers, from the elementary interactions the task performs ---------
GroupOf(groups, l, idx) == CHOOSE g \in 1..Len(groups[l+1]) : idx \in SeqToSet(groups[l+1][g])
SG(l, idx) == GroupOf(sgroups, l, idx)
TG(l, idx) == GroupOf(tgroups, l, idx)
ReadsOfElem(e) ==
  CASE e[1] = "P2M"  -> { <<"pd", TreeTagS, SG(LeafLevel, e[2])>> }
    [] e[1] = "L2P"  -> { <<"lo", LeafLevel, TG(LeafLevel, e[2])>>, <<"pd", TreeTagT, TG(LeafLevel, e[2])>> }
    [] e[1] = "P2PI" -> { <<"pd", TreeTagT, TG(LeafLevel, e[2])>> }
    [] e[1] = "M2M"  -> { <<"mp", e[2] + 1, SG(e[2] + 1, e[4])>> }
    [] e[1] = "L2L"  -> { <<"lo", e[2], TG(e[2], e[3])>> }
    [] e[1] = "M2L"  -> { <<"mp", e[2], SG(e[2], e[4])>> }
    [] e[1] = "P2P"  -> { <<"pd", TreeTagS, SG(LeafLevel, e[3])>>, <<"pd", TreeTagT, TG(LeafLevel, e[2])>> }
WritesOfElem(e) ==
  CASE e[1] = "P2M"  -> { <<"mp", LeafLevel, SG(LeafLevel, e[2])>> }
    [] e[1] = "L2P"  -> { <<"pr", TreeTagT, TG(LeafLevel, e[2])>> }
    [] e[1] = "P2PI" -> { <<"pr", TreeTagT, TG(LeafLevel, e[2])>> }
    [] e[1] = "M2M"  -> { <<"mp", e[2], SG(e[2], e[3])>> }
    [] e[1] = "L2L"  -> { <<"lo", e[2] + 1, TG(e[2] + 1, e[4])>> }
    [] e[1] = "M2L"  -> { <<"lo", e[2], TG(e[2], e[3])>> }
    [] e[1] = "P2P"  -> IF Tsm THEN { <<"pr", TreeTagT, TG(LeafLevel, e[2])>> }
                        ELSE { <<"pr", TreeTagT, TG(LeafLevel, e[2])>>, <<"pr", TreeTagS, SG(LeafLevel, e[3])>> }
TaskReads(i)  == UNION { ReadsOfElem(e) : e \in TaskBatch(i) }
TaskWrites(i) == UNION { WritesOfElem(e) : e \in TaskBatch(i) }

\* ---- submission order: the task executors run the stages P2M, M2M, M2L, L2L, P2P, L2P (direct pass BEFORE the leaf downward
\* pass, unlike the sequential executor whose order Fmm!Program keeps); inside a stage the order of the wrapper calls
StageRank(op) == CASE op = "P2M" -> 1 [] op = "M2M" -> 2 [] op \in {"M2LI", "M2LB"} -> 3 [] op = "L2L" -> 4
                   [] op \in {"P2PB", "P2PI", "P2PInner"} -> 5 [] OTHER -> 6
SubmitKey(i) == StageRank(pcs[i].op) * 100000 + i
Before(a, b) == SubmitKey(a) < SubmitKey(b)
\* ---- dependence semantics -----------------------------------------------------------------------------------------
DeclConflict(a, b) == (TaskMuts(a) \cap TaskIns(b)) # {} \/ (TaskIns(a) \cap TaskMuts(b)) # {}
Preds(b) == { a \in TaskIds : Before(a, b) /\ DeclConflict(a, b) }
BothCommute(a, b) == \A h \in (TaskWrites(a) \cup TaskReads(a)) \cap (TaskWrites(b) \cup TaskReads(b)) :
                         (h \in TaskWrites(a) \/ h \in TaskWrites(b)) => (h \in TaskMuts(a) /\ h \in TaskMuts(b))
ActualConflict(a, b) == (TaskWrites(a) \cap (TaskReads(b) \cup TaskWrites(b))) # {} \/ (TaskReads(a) \cap TaskWrites(b)) # {}
HB(b) == LET RECURSIVE Clo(_)
             Clo(seen) == LET new == (UNION { Preds(x) : x \in seen }) \ seen IN IF new = {} THEN seen ELSE Clo(seen \cup new)
         IN Clo(Preds(b))

\* ---- the runtime ---------------------------------------------------------------------------------------------------
TInit == Init /\ done = {}
TStartOp == StartOp /\ done' = {}
RunTask(i) ==
  /\ pcs # <<>> /\ bad = "" /\ i \in TaskIds \ done /\ Preds(i) \subseteq done
  /\ LET B == TaskBatch(i)
         as == { AssertOf(CallsOf(i)[k]) : k \in 1..Len(CallsOf(i)) } \ {""}
         refines == B \subseteq pending /\ \A e \in B : Guard(e, pending \ B)
     IN /\ bad' = IF as # {} THEN CHOOSE a \in as : TRUE
                  ELSE IF ~refines THEN "task " \o pcs[i].op \o " ran when it was not an enabled batch of the dataflow specification"
                  ELSE ""
        /\ mp' = MpAfter(mp, B) /\ lo' = LoAfter(lo, mp, B) /\ rhs' = RhsAfter(rhs, lo, B)
        /\ cnt' = CntAfter(cnt, B)
        /\ elemDigest' = (elemDigest + DigestOfSet(B)) % 1000003
        /\ pending' = pending \ B
  /\ done' = done \cup {i} /\ step' = step + 1
  /\ UNCHANGED <<sparts, tparts, bs, ogpp, stop, sgroups, tgroups, pcs, ops, hname, above, init0>>
\* the wait at the end of execute(): every task has run
EndExec == /\ pcs # <<>> /\ bad = "" /\ TaskIds \subseteq done
           /\ pcs' = <<>> /\ done' = {}
           /\ UNCHANGED <<sparts, tparts, bs, ogpp, stop, sgroups, tgroups, mp, lo, rhs, pending, ops, cnt, elemDigest, bad, hname, step, above, init0>>
TNext == TStartOp \/ EndExec \/ \E i \in 1..Len(pcs) : RunTask(i)
TSpec == TInit /\ [][TNext]_tvars
TFairSpec == TSpec /\ WF_tvars(TNext)

\* ---- properties ----------------------------------------------------------------------------------------------------
DeclaredCoversActual == (pcs # <<>> /\ done = {}) => \A i \in TaskIds : /\ TaskWrites(i) \subseteq TaskMuts(i)
                                                         /\ TaskReads(i) \subseteq (TaskIns(i) \cup TaskMuts(i))
ConflictsOrdered == (pcs # <<>> /\ done = {}) => \A b \in TaskIds : \A a \in TaskIds :
                        (Before(a, b) /\ ActualConflict(a, b)) => (a \in HB(b) \/ BothCommute(a, b))
Terminates == <>(bad # "" \/ Done)
\* results above are Fmm's: NoAssertFail, MultipoleDef, LocalDef, RhsDef, Completes, ExactlyOnce, CountersEqualElementary,
\* ElementarySetIndependentOfGrouping, GeometricConsistency, NothingAboveStopLevel hold in every reachable state of TSpec

\* ---- the model graph, printed once per execute() for the comparison with the recorded one -------------------------
SubmitRank(i) == Cardinality({ y \in TaskIds : SubmitKey(y) <= SubmitKey(i) })
EmitGraph == (EmitJson /\ pcs # <<>> /\ done = {}) =>
  PrintT(ToJson([ k |-> "mgraph", mode |-> Mode, dim |-> Dim, height |-> Height, periodic |-> Periodic,
                  sparts |-> sparts, tparts |-> tparts, bs |-> bs, ogpp |-> ogpp, stop |-> stop, hist |-> hname, nops |-> Len(ops),
                  tasks |-> [ j \in 1..Cardinality(TaskIds) |->
                               LET i == CHOOSE x \in TaskIds : SubmitRank(x) = j IN
                               [ op |-> pcs[i].op, ins |-> TaskIns(i), muts |-> TaskMuts(i), preds |-> { SubmitRank(a) : a \in Preds(i) } ] ] ]))
=============================================================================
