---------------------------- MODULE TaskRuntime ----------------------------
(***************************************************************************)
(* L4 - task graphs submitted by the task-based executors, under every     *)
(* schedule a conforming runtime may produce.                              *)
(*                                                                         *)
(* The graphs are RECORDED FROM THE REAL EXECUTORS (code -> spec): the      *)
(* harness intercepts the runtime ABI (harness/mockomp.hpp for OpenMP),     *)
(* maps every declared dependence back to the group buffer it designates   *)
(* ("mp.<level>.<group>", "lo...", "pd.<group>" particle data,              *)
(* "pr.<group>" particle results) and takes the ACTUAL read / write sets of *)
(* each task from the kernel callbacks executed inside it.  So TLC         *)
(* explores what the code submits, not what the specification thinks it    *)
(* submits: a stricter-than-necessary dependence is never an alarm, a      *)
(* missing or mis-keyed one is.                                            *)
(*                                                                         *)
(* File format (ndjson, IOEnv.GRAPHS):                                     *)
(*   {"e":"Graph","key":...,"n":N}  then N lines                           *)
(*   {"e":"Task","t":i,"prio":p,"deps":[[handle,mode],...],"rd":[...],"wr":[...]}  *)
(*   optionally followed by {"e":"Run","order":[t1,...,tN]} lines: orders   *)
(*   in which the mock runtime actually ran the tasks (validated here).    *)
(* mode: "in" | "out" (out/inout) | "mutex" (mutexinoutset).               *)
(***************************************************************************)
EXTENDS Naturals, Sequences, FiniteSets, TLC, Json, IOUtils, FiniteSetsExt
CONSTANTS NbWorkers, MaxTasksExhaustive, Shard, NbShards, EmitSchedules

Rows == ndJsonDeserialize(IOEnv.GRAPHS)
GraphPos == { i \in 1..Len(Rows) : Rows[i].e = "Graph" }
NG == Cardinality(GraphPos)
\* position of the g-th graph header
PosOfDef == [g \in 1..NG |-> CHOOSE i \in GraphPos : Cardinality({ j \in GraphPos : j <= i }) = g]
ASSUME TLCSet(1, PosOfDef)
PosOf == TLCGet(1)
NT(g) == Rows[PosOf[g]].n
T(g) == 1..NT(g)
Task(g, t) == Rows[PosOf[g] + t]
DepSet(g, t) == { <<Task(g, t).deps[i][1], Task(g, t).deps[i][2]>> : i \in 1..Len(Task(g, t).deps) }
Rd(g, t) == { Task(g, t).rd[i] : i \in 1..Len(Task(g, t).rd) }
Wr(g, t) == { Task(g, t).wr[i] : i \in 1..Len(Task(g, t).wr) }

(* OpenMP dependence semantics: a later task waits for every earlier task  *)
(* with a conflicting declaration on a common address; two mutexinoutset   *)
(* declarations do not order but exclude each other.                       *)
DeclOrdered(g, a, b) == \E da \in DepSet(g, a), db \in DepSet(g, b) :
     /\ da[1] = db[1] /\ ~(da[2] = "in" /\ db[2] = "in") /\ ~(da[2] = "mutex" /\ db[2] = "mutex")
DeclMutex(g, a, b) == \E da \in DepSet(g, a), db \in DepSet(g, b) : da[1] = db[1] /\ da[2] = "mutex" /\ db[2] = "mutex"
ActualConflict(g, a, b) == (Wr(g, a) \cap (Rd(g, b) \cup Wr(g, b))) # {} \/ (Rd(g, a) \cap Wr(g, b)) # {}

PredDef  == [g \in 1..NG |-> [b \in 1..NT(g) |-> { a \in 1..(b-1) : DeclOrdered(g, a, b) }]]
MutexDef == [g \in 1..NG |-> [b \in 1..NT(g) |-> { a \in (1..NT(g)) \ {b} : DeclMutex(g, a, b) }]]
ConfDef  == [g \in 1..NG |-> [a \in 1..NT(g) |-> { b \in (1..NT(g)) \ {a} : ActualConflict(g, a, b) }]]
ASSUME TLCSet(2, PredDef)
ASSUME TLCSet(3, MutexDef)
ASSUME TLCSet(4, ConfDef)
Pred == TLCGet(2)
MutexWith == TLCGet(3)
ConflictTab == TLCGet(4)

\* transitive closure of the declared order (a happens-before b under EVERY conforming schedule)
HBDef == [g \in 1..NG |->
   LET RECURSIVE Anc(_, _)
       Anc(b, seen) == LET new == (UNION { Pred[g][x] : x \in seen }) \ seen IN IF new = {} THEN seen ELSE Anc(b, seen \cup new)
   IN [b \in 1..NT(g) |-> Anc(b, Pred[g][b])]]
ASSUME TLCSet(5, HBDef)
HB == TLCGet(5)

(* The static sufficient condition evaluated on every recorded graph       *)
(* (also evaluated by the harness on graphs too large for TLC): every pair *)
(* of tasks with conflicting ACTUAL accesses is ordered by the transitive  *)
(* closure of the declared dependences or mutually exclusive.              *)
Covered(g) == \A b \in T(g) : \A a \in ConflictTab[g][b] : a > b \/ a \in HB[g][b] \/ a \in MutexWith[g][b]
\* the orders in which the mock runtime ran the tasks are legal schedules of the graph (self-check of the harness)
RunRows(g) == { i \in (PosOf[g] + NT(g) + 1)..Len(Rows) : Rows[i].e = "Run" /\ \A j \in (PosOf[g] + NT(g) + 1)..i : Rows[j].e = "Run" }
RunLegal(g, i) == LET o == Rows[i].order IN
     /\ Len(o) = NT(g) /\ { o[k] : k \in 1..Len(o) } = T(g)
     /\ \A k \in 1..Len(o) : Pred[g][o[k]] \subseteq { o[j] : j \in 1..(k-1) }
RunsLegal(g) == \A i \in RunRows(g) : RunLegal(g, i)

(***************************************************************************)
(* The runtime as a state machine: tasks are submitted in program order,   *)
(* any idle worker may start any submitted task whose declared             *)
(* predecessors have finished and whose mutex partners are not running.    *)
(***************************************************************************)
VARIABLES g, submitted, running, finished, order
vars == <<g, submitted, running, finished, order>>
Workers == 1..NbWorkers
Init == /\ g \in { x \in 1..NG : x % NbShards = Shard }
        /\ submitted = 0 /\ running = [w \in Workers |-> 0] /\ finished = {} /\ order = <<>>
Running == { running[w] : w \in Workers } \ {0}
Explore == NT(g) <= MaxTasksExhaustive
Submit == /\ Explore /\ submitted < NT(g) /\ submitted' = submitted + 1 /\ UNCHANGED <<g, running, finished, order>>
Start(w, t) == /\ Explore /\ running[w] = 0 /\ t <= submitted /\ t \notin finished /\ t \notin Running
               /\ Pred[g][t] \subseteq finished
               /\ MutexWith[g][t] \cap Running = {}
               \* symmetry reduction: workers are interchangeable, use the lowest idle one
               /\ \A w2 \in Workers : w2 < w => running[w2] # 0
               /\ running' = [running EXCEPT ![w] = t] /\ order' = Append(order, t) /\ UNCHANGED <<g, submitted, finished>>
Finish(w) == /\ running[w] # 0 /\ finished' = finished \cup {running[w]}
             /\ running' = [running EXCEPT ![w] = 0] /\ UNCHANGED <<g, submitted, order>>
Next == Submit \/ \E w \in Workers : (Finish(w) \/ \E t \in T(g) : Start(w, t))
Spec == Init /\ [][Next]_vars
FairSpec == Spec /\ WF_vars(Next)
\* the history variable `order` is hidden from the fingerprint: interleavings that reach the same runtime state are merged
View == <<g, submitted, running, finished>>

\* C03: two tasks that conflict on ACTUAL accesses never run at the same time, under any schedule
NoRace == \A a \in Running : ConflictTab[g][a] \cap Running = {}
\* every submitted graph can be run to completion (no dependence cycle, no lost task)
AllDone == <>(~Explore \/ finished = T(g))
\* the static condition is sufficient: where it holds no interleaving races (checked on every explored graph)
CoveredImpliesNoRace == Covered(g) => NoRace
\* a graph where Covered fails is reported by the harness; here we only record it
Report == (submitted = 0 /\ finished = {} /\ Running = {}) =>
            PrintT(ToJson([k |-> "graph", g |-> g, key |-> Rows[PosOf[g]].key, n |-> NT(g), covered |-> Covered(g),
                           runs |-> Cardinality(RunRows(g)), runsLegal |-> RunsLegal(g), explored |-> Explore]))
\* complete schedules found by TLC, printed for replay through the mock runtime (spec -> code)
Emit == (EmitSchedules /\ Explore /\ finished = T(g)) =>
            PrintT(ToJson([k |-> "sched", g |-> g, key |-> Rows[PosOf[g]].key, order |-> order]))
=============================================================================
