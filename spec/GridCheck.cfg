SPECIFICATION Spec
CONSTANTS
  Dim = 2
  Height = 4
  Periodic = FALSE
  Ordering = "morton"
  EmitJson = TRUE
  Shard = 0
  NbShards = 1
INVARIANTS
  Bijection ParentContains ChildCodeDistinct ChildCodeIsOctant CodeRoundTrip ILSymmetric NeighSymmetric
  PeriodicCardinality ListsAreGeometric HalfFilterAntisymmetric PartitionLemma Emit
CHECK_DEADLOCK FALSE
