---------------------------- MODULE BlockTreeMC ----------------------------
(***************************************************************************)
(* Exhaustive exploration of the block tree alone (no expansions): every   *)
(* occupancy pattern x block size x grouping mode of a pool of leaves is   *)
(* one state; the structural invariants (C07) and the lookup specification *)
(* (C16) are evaluated on it and the tree is printed for the replay on the *)
(* real TbfTree (spec -> code).  Far larger pattern spaces than Fmm.tla    *)
(* can afford, because a state carries no bags.                            *)
(***************************************************************************)
EXTENDS BlockTree, TLC, Json, FiniteSetsExt
CONSTANTS Pool, MaxPerLeaf, MaxParts, BlockSizes, GroupModes, EmitEvery, Shard, NbShards

PoolSeq == SortedSeq(Pool)
NP == Len(PoolSeq)
Patterns == { f \in [1..NP -> 0..MaxPerLeaf] : LET n == FoldSet(LAMBDA i, acc : acc + f[i], 0, 1..NP) IN n >= 1 /\ n <= MaxParts }
PatternNumber(f) == FoldSet(LAMBDA i, acc : acc + f[i] * ((MaxPerLeaf + 1) ^ (i - 1)), 0, 1..NP)
PartsOf(f) == LET RECURSIVE F(_)
                  F(i) == IF i > NP THEN <<>> ELSE [j \in 1..f[i] |-> PoolSeq[i]] \o F(i+1)
              IN F(1)

VARIABLES parts, bs, ogpp, groups, num
vars == <<parts, bs, ogpp, groups, num>>
Init == \E f \in Patterns, b \in BlockSizes, o \in GroupModes :
          /\ PatternNumber(f) % NbShards = Shard
          /\ parts = PartsOf(f) /\ bs = b /\ ogpp = o /\ num = PatternNumber(f)
          /\ groups = BuildTree(SeqToSet(PartsOf(f)), b, o)
Next == UNCHANGED vars
Spec == Init /\ [][Next]_vars

Occ == SeqToSet(parts)
TreeOK == TreeInvariant(groups, Occ, bs, ogpp)
LookupOK == FindIffExists(groups)
\* the number of groups of a level never exceeds the number of groups of the level below (both modes)
GroupsShrinkUpwards == \A l \in 0..(LeafLevel-1) : Len(groups[l+1]) <= Len(groups[l+2])
\* default mode: every group but the last of a level is full
FullButLast == ~ogpp => \A l \in Levels : \A g \in 1..(Len(groups[l+1]) - 1) : Len(groups[l+1][g]) = bs
Emit == (EmitEvery > 0 /\ (num + bs) % EmitEvery = 0) =>
          PrintT(ToJson([ k |-> "scn", mode |-> "single", dim |-> Dim, height |-> Height, periodic |-> Periodic,
                          sparts |-> parts, tparts |-> parts, bs |-> bs, ogpp |-> ogpp, stop |-> 2, hist |-> "build",
                          sgroups |-> groups, tgroups |-> groups ]))
=============================================================================
