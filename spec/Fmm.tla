-------------------------------- MODULE Fmm --------------------------------
(***************************************************************************)
(* L1 + L3 - what an FMM execution IS (dataflow of elementary              *)
(* interactions over an exactly additive, symbolic kernel) and how the     *)
(* sequential executor of tbfmm performs it on a block tree.               *)
(*                                                                         *)
(* Symbolic kernel.  A contribution is a pair <<q, d>>: source particle q  *)
(* and the integer displacement d (in half-leaf units) from the centre of  *)
(* the holder (cell or target leaf) to the centre of q's leaf, images      *)
(* included.  Expansions and results are bags of contributions.  The six   *)
(* operators translate contributions USING THEIR ARGUMENTS (level, child   *)
(* codes, base-7 / base-3 position codes): a wrong argument changes the    *)
(* bag.  harness/bagkernel.hpp implements exactly these effects in C++.    *)
(*                                                                         *)
(* L1 (dataflow): the set Elementary of elementary interactions is a       *)
(* function of the occupancy only - no groups.  Performing a batch is      *)
(* allowed only if every member is still pending and the dataflow guard    *)
(* holds (a multipole is read only when complete, ...).                    *)
(*                                                                         *)
(* L3 (SeqExec): TbfAlgorithm::execute(flags) as the ordered if-chain of   *)
(* stages; each stage as its loop over groups with the code's cursors;     *)
(* each call of a TbfGroupKernelInterface method ("wrapper call") is one   *)
(* step whose effect is the set of elementary interactions it performs.    *)
(*                                                                         *)
(* Mode "single": one tree, mutual P2P over the upper half of the          *)
(* neighbour list + P2PInner.  Mode "tsm": source tree (multipoles) and    *)
(* target tree (locals, results), one-sided P2P over the full list + self. *)
(***************************************************************************)
EXTENDS BlockTree, Bags, TLC, Json, FiniteSetsExt
CONSTANTS Mode,          \* "single" | "tsm"
          Pool,          \* candidate leaf indices
          MaxPerLeaf,    \* particles per occupied leaf: 1..MaxPerLeaf
          MaxParts,      \* bound on the number of particles (per tree)
          BlockSizes, GroupModes, StopLevels,
          Histories,     \* set of history names (see OpsOf)
          AboveLevelsP1, \* numbers of extra levels of the periodic top tree (history "ptop") PLUS ONE: subset of 0..6
                         \* (a TLC configuration file cannot spell a negative number; above = -1..5)
          EmitJson, Shard, NbShards

ASSUME Mode \in {"single", "tsm"}

(***************************************************************************)
(* Geometry tables (evaluated once, parked in TLC registers).              *)
(***************************************************************************)
CoordTabDef == [l \in Levels |-> [m \in 0..(NbCells(l)-1) |-> CoordOf(m, l)]]
ASSUME TLCSet(1, CoordTabDef)
CoordTab == TLCGet(1)
ILTabDef == [l \in Levels |-> [m \in 0..(NbCells(l)-1) |-> { <<Morton(x[1], l), Enc7(x[2])>> : x \in IL(CoordTab[l][m], l) }]]
NBTabDef == [m \in 0..(NbCells(LeafLevel)-1) |-> { <<Morton(x[1], LeafLevel), Enc3(x[2])>> : x \in Neigh(CoordTab[LeafLevel][m], LeafLevel) }]
ASSUME TLCSet(2, ILTabDef)
ASSUME TLCSet(3, NBTabDef)
ILTab == TLCGet(2)      \* ILTab[l][m] = set of <<source index, base-7 code>>
NBTab == TLCGet(3)      \* NBTab[m]    = set of <<neighbour leaf index, base-3 code>>

W(l) == Pow2(Height - l)                        \* width of a level-l cell in half-leaf units
Centre(m, l) == [d \in Dims |-> CoordTab[l][m][d] * W(l) + (W(l) \div 2)]
\* vector from the centre of a level-l parent to the centre of its child with the given code (dimension 1 = most significant bit)
TChild(l, code) == [d \in Dims |-> (IF Bit(code, Dim - d) = 1 THEN 1 ELSE 0 - 1) * (W(l) \div 4)]
VAdd(a, b) == [d \in Dims |-> a[d] + b[d]]
VSub(a, b) == [d \in Dims |-> a[d] - b[d]]
Anc(m, l) == m \div Pow2(Dim * (LeafLevel - l))  \* ancestor at level l of leaf index m
AncOf(m, from, to) == m \div Pow2(Dim * (from - to))

(***************************************************************************)
(* Bags of contributions.                                                  *)
(***************************************************************************)
ShiftBag(b, t) == [e \in { <<x[1], VAdd(x[2], t)>> : x \in DOMAIN b } |-> b[<<e[1], VSub(e[2], t)>>]]
BagOfSet(S) == SetToBag(S)
\* bag union of F(e) over the elements e of a finite set (folding over the elements, not over the SET of bags,
\* which would silently merge two elements that happen to produce the same bag)
SumOver(S, F(_)) == FoldSet(LAMBDA e, acc : F(e) (+) acc, EmptyBag, S)
NbEntries(b) == Cardinality(DOMAIN b)
SumMult(b) == FoldSet(LAMBDA e, acc : acc + b[e], 0, DOMAIN b)
\* a scalar digest of a bag (compared with the same function of the real buffers, harness/bagkernel.hpp)
Weight(e) == e[1] * 7 + FoldSet(LAMBDA d, acc : acc + e[2][d] * (d + 1), 0, Dims)
BagDigest(b) == FoldSet(LAMBDA e, acc : acc + b[e] * Weight(e), 0, DOMAIN b)

(***************************************************************************)
(* State.                                                                  *)
(***************************************************************************)
VARIABLES sparts, tparts,   \* pid -> leaf index (sequences); single mode: tparts = sparts
          bs, ogpp, stop,
          sgroups, tgroups, \* group structure of the source / target tree (single mode: identical)
          mp, lo, rhs,      \* level -> cell -> bag ; target pid -> bag
          pending,          \* elementary interactions of the current pass not yet performed
          pcs,              \* remaining wrapper calls of the execute() in progress
          ops,              \* remaining operations of the history
          cnt,              \* interaction counters as TbfInteractionCounter would report them
          elemDigest,       \* order-insensitive digest of the elementary interactions performed
          bad,              \* "" or the description of a failed library assertion / refinement failure
          hname, step, above,
          init0             \* the initial particles and groups (history variable, printed for the replay)
vars == <<sparts, tparts, bs, ogpp, stop, sgroups, tgroups, mp, lo, rhs, pending, pcs, ops, cnt, elemDigest, bad, hname, step, above, init0>>

Tsm == Mode = "tsm"
SOcc == SeqToSet(sparts)
TOcc == SeqToSet(tparts)
SPids(leafSet) == { q \in 1..Len(sparts) : sparts[q] \in leafSet }
TPids(leafSet) == { q \in 1..Len(tparts) : tparts[q] \in leafSet }
SCells(l) == CellsOf(SOcc, l)
TCells(l) == CellsOf(TOcc, l)

(***************************************************************************)
(* L1: elementary interactions (no groups).                                *)
(*   <<"P2M", leaf>>                <<"L2P", leaf>>        <<"P2PI", leaf>>   *)
(*   <<"M2M", l, parent, child, code>>   (l = level of the parent)         *)
(*   <<"L2L", l, parent, child, code>>                                     *)
(*   <<"M2L", l, target, source, code7>>                                   *)
(*   <<"P2P", target leaf, source leaf, code3>>                            *)
(***************************************************************************)
FarActive(st) == Height > st
\* (parametrised by the particle sequences so that the trace specification can evaluate it for a recorded occupancy)
ElementaryFor(sp, tp, st) ==
  LET so == SeqToSet(sp)  to == SeqToSet(tp)
      \* (functions, not operators: TLC caches the value of a zero-arity LET definition, an operator would be re-evaluated at every use)
      scT == [l \in Levels |-> CellsOf(so, l)]  tcT == [l \in Levels |-> CellsOf(to, l)]
      sc(l) == scT[l]  tc(l) == tcT[l]
      p2m == IF FarActive(st) THEN { <<"P2M", m>> : m \in so } ELSE {}
      l2p == IF FarActive(st) THEN { <<"L2P", m>> : m \in to } ELSE {}
      m2m == UNION { { <<"M2M", l, Par(c), c, ChildCode(c)>> : c \in sc(l+1) } : l \in st..(LeafLevel-1) }
      l2l == UNION { { <<"L2L", l, Par(c), c, ChildCode(c)>> : c \in tc(l+1) } : l \in st..(LeafLevel-1) }
      m2l == UNION { UNION { { <<"M2L", l, t, x[1], x[2]>> : x \in { y \in ILTab[l][t] : y[1] \in sc(l) } } : t \in tc(l) } : l \in st..LeafLevel }
      p2p == IF Tsm
             THEN UNION { { <<"P2P", t, x[1], x[2]>> : x \in { y \in NBTab[t] \cup {<<t, Half3>>} : y[1] \in so } } : t \in to }
             ELSE UNION { { <<"P2P", t, x[1], x[2]>> : x \in { y \in NBTab[t] : y[2] > Half3 /\ y[1] \in so } } : t \in to }
      p2pi == IF Tsm THEN {} ELSE { <<"P2PI", m>> : m \in to }
  IN p2m \cup m2m \cup m2l \cup l2l \cup l2p \cup p2p \cup p2pi
Elementary(st) == ElementaryFor(sparts, tparts, st)
\* what flows into an expansion
IntoMp(P, l, c) == { e \in P : (e[1] = "P2M" /\ l = LeafLevel /\ e[2] = c) \/ (e[1] = "M2M" /\ e[2] = l /\ e[3] = c) }
IntoLo(P, l, c) == { e \in P : (e[1] = "M2L" /\ e[2] = l /\ e[3] = c) \/ (e[1] = "L2L" /\ e[2] = l - 1 /\ e[4] = c) }
\* dataflow guard of one elementary interaction, given the set P of interactions still pending
Guard(e, P) == CASE e[1] = "M2M" -> IntoMp(P, e[2] + 1, e[4]) = {}
                 [] e[1] = "M2L" -> IntoMp(P, e[2], e[4]) = {}
                 [] e[1] = "L2L" -> IntoLo(P, e[2], e[3]) = {}
                 [] e[1] = "L2P" -> IntoLo(P, LeafLevel, e[2]) = {}
                 [] OTHER -> TRUE

(* The same guard by membership tests on the only elements that can flow   *)
(* into the expansion (P is always a subset of an Elementary set, whose    *)
(* elements have the shapes above): logarithmic instead of linear in P.    *)
(* Used by the trace specification on large recorded executions; the       *)
(* model-checking runs check that it agrees with Guard (Call).             *)
MpOpen(P, l, c) == \/ (l = LeafLevel /\ <<"P2M", c>> \in P)
                   \/ (l < LeafLevel /\ \E j \in 0..(Pow2(Dim)-1) : <<"M2M", l, c, c * Pow2(Dim) + j, j>> \in P)
LoOpen(P, l, c) == \/ \E x \in ILTab[l][c] : <<"M2L", l, c, x[1], x[2]>> \in P
                   \/ (l > 0 /\ <<"L2L", l - 1, Par(c), c, ChildCode(c)>> \in P)
GuardFast(e, P) == CASE e[1] = "M2M" -> ~MpOpen(P, e[2] + 1, e[4])
                     [] e[1] = "M2L" -> ~MpOpen(P, e[2], e[4])
                     [] e[1] = "L2L" -> ~LoOpen(P, e[2], e[3])
                     [] e[1] = "L2P" -> ~LoOpen(P, LeafLevel, e[2])
                     [] OTHER -> TRUE

(***************************************************************************)
(* Effects of a batch of elementary interactions on (mp, lo, rhs): the     *)
(* symbolic kernel.  Each uses the arguments the library passes.           *)
(***************************************************************************)
LeafBag(pids) == BagOfSet({ <<q, Zero>> : q \in pids })
MpAfter(m0, B) == [l \in Levels |-> [c \in DOMAIN m0[l] |->
    m0[l][c]
    (+) (IF l = LeafLevel /\ <<"P2M", c>> \in B THEN LeafBag(SPids({c})) ELSE EmptyBag)
    (+) SumOver({ x \in B : x[1] = "M2M" /\ x[2] = l /\ x[3] = c }, LAMBDA e : ShiftBag(m0[l+1][e[4]], TChild(l, e[5]))) ]]
LoAfter(l0, m0, B) == [l \in Levels |-> [c \in DOMAIN l0[l] |->
    l0[l][c]
    (+) SumOver({ x \in B : x[1] = "M2L" /\ x[2] = l /\ x[3] = c }, LAMBDA e : ShiftBag(m0[l][e[4]], Scale(Dec7(e[5]), W(l))))
    (+) SumOver({ x \in B : x[1] = "L2L" /\ x[2] = l - 1 /\ x[4] = c }, LAMBDA e : ShiftBag(l0[l-1][e[3]], Scale(TChild(l-1, e[5]), 0 - 1))) ]]
RhsAfter(r0, l0, B) == [p \in DOMAIN r0 |->
    LET leaf == tparts[p] IN
    r0[p]
    (+) (IF <<"L2P", leaf>> \in B THEN l0[LeafLevel][leaf] ELSE EmptyBag)
    (+) (IF <<"P2PI", leaf>> \in B THEN BagOfSet({ <<q, Zero>> : q \in TPids({leaf}) \ {p} }) ELSE EmptyBag)
    \* p is in the target leaf of a P2P: it sees every particle of the source leaf at +offset
    (+) SumOver({ x \in B : x[1] = "P2P" /\ x[2] = leaf }, LAMBDA e : BagOfSet({ <<q, Scale(Dec3(e[4]), 2)>> : q \in SPids({e[3]}) }))
    \* single mode: P2P is mutual, the particles of the source leaf see the target leaf at -offset
    (+) (IF Tsm THEN EmptyBag
         ELSE SumOver({ x \in B : x[1] = "P2P" /\ x[3] = leaf }, LAMBDA e : BagOfSet({ <<q, Scale(Dec3(e[4]), 0 - 2)>> : q \in TPids({e[2]}) }))) ]
CntAfter(c0, B) == [ P2M |-> c0.P2M + Cardinality({ e \in B : e[1] = "P2M" }),
                     M2M |-> c0.M2M + Cardinality({ e \in B : e[1] = "M2M" }),
                     M2L |-> c0.M2L + Cardinality({ e \in B : e[1] = "M2L" }),
                     L2L |-> c0.L2L + Cardinality({ e \in B : e[1] = "L2L" }),
                     L2P |-> c0.L2P + Cardinality({ e \in B : e[1] = "L2P" }),
                     P2P |-> c0.P2P + FoldSet(LAMBDA e, acc : acc + Cardinality(SPids({e[3]})) * Cardinality(TPids({e[2]})), 0, { e \in B : e[1] = "P2P" }),
                     P2PInner |-> c0.P2PInner + FoldSet(LAMBDA e, acc : acc + LET n == Cardinality(TPids({e[2]})) IN n * n - n, 0, { e \in B : e[1] = "P2PI" }) ]
OpCode(e) == CASE e[1] = "P2M" -> 1 [] e[1] = "M2M" -> 2 [] e[1] = "M2L" -> 3 [] e[1] = "L2L" -> 4 [] e[1] = "L2P" -> 5 [] e[1] = "P2P" -> 6 [] OTHER -> 7
ElemHash(e) == CASE e[1] \in {"P2M", "L2P", "P2PI"} -> OpCode(e) * 1009 + e[2] * 31
                 [] e[1] = "P2P" -> OpCode(e) * 1009 + e[2] * 31 + e[3] * 17 + e[4] * 7
                 [] OTHER -> OpCode(e) * 1009 + e[2] * 101 + e[3] * 31 + e[4] * 17 + e[5] * 7
DigestOfSet(B) == FoldSet(LAMBDA e, acc : (acc + ElemHash(e)) % 1000003, 0, B)

(***************************************************************************)
(* L3: wrapper calls of TbfGroupKernelInterface and the executor's loops.  *)
(* A wrapper call is a record; Batch(call) is the set of elementary        *)
(* interactions it performs (transcribed from the wrapper's own loops).    *)
(***************************************************************************)
\* --- M2M / L2L wrapper (tbfgroupkernelinterface.hpp:30-81,171-222): pairs parents of `up` with their children in `low`
\* result: <<sequence of <<parent, children sequence>>, assertion text or "">>
WalkPC(low, up) ==
  LET start == IF Par(First(low)) > First(up) THEN Par(First(low)) ELSE First(up)
      iP0 == PosInGroup(up, start)
      iC0 == LET RECURSIVE F(_)
                 F(i) == IF i > Len(low) THEN 0 ELSE IF Par(low[i]) = start THEN i ELSE F(i+1)
             IN F(1)
      RECURSIVE Wk(_, _, _, _)
      Wk(iP, iC, kids, acc) ==
        IF iP > Len(up) \/ iC > Len(low)
        THEN (IF Len(kids) > 0 THEN Append(acc, <<up[iP], kids>>) ELSE acc)
        ELSE LET kids2 == Append(kids, low[iC]) IN
             IF iC + 1 <= Len(low) /\ Par(low[iC + 1]) # up[iP]
             THEN Wk(iP + 1, iC + 1, <<>>, Append(acc, <<up[iP], kids2>>))
             ELSE Wk(iP, iC + 1, kids2, acc)
  IN IF iP0 = 0 THEN <<<<>>, "assert(foundParent) fails in M2M/L2L wrapper">>
     ELSE IF iC0 = 0 THEN <<<<>>, "assert(foundChild) fails in M2M/L2L wrapper">>
     ELSE <<Wk(iP0, iC0, <<>>, <<>>), "">>
PCPairs(low, up) == LET w == WalkPC(low, up)[1] IN
    UNION { { <<w[i][1], w[i][2][j]>> : j \in 1..Len(w[i][2]) } : i \in 1..Len(w) }
\* --- executor loop over (lower group, upper group) pairs (tbfalgorithm.hpp:56-82,112-138)
GroupPairs(lowGs, upGs) ==
  LET RECURSIVE Wg(_, _, _)
      Wg(iu, il, acc) ==
        IF iu > Len(upGs) \/ il > Len(lowGs) THEN acc
        ELSE LET acc2 == Append(acc, <<il, iu>>) IN
             IF Par(Last(lowGs[il])) <= Last(upGs[iu])
             THEN IF il + 1 <= Len(lowGs) /\ Last(upGs[iu]) < Par(First(lowGs[il + 1]))
                  THEN Wg(iu + 1, il + 1, acc2) ELSE Wg(iu, il + 1, acc2)
             ELSE Wg(iu + 1, il, acc2)
  IN Wg(1, 1, <<>>)
\* --- interaction lists of a target group, split as the index class does (tbfmortonspaceindex.hpp:271-413)
InRange(g, s) == First(g) <= s /\ s <= Last(g)
M2LEntries(l, g) == UNION { { <<t, x[1], x[2]>> : x \in ILTab[l][t] } : t \in SeqToSet(g) }       \* <<target, source, code>>
P2PEntries(g, upper) == UNION { { <<t, x[1], x[2]>> : x \in { y \in NBTab[t] : ~upper \/ y[2] > Half3 } } : t \in SeqToSet(g) }
SelfEntries(g) == { <<t, t, Half3>> : t \in SeqToSet(g) }
\* source groups reached by the external list (TbfMapIndexesAndBlocks: groups in order, sub-list in the group's index range)
HitGroups(entries, gs) == LET RECURSIVE F(_)
                              F(i) == IF i > Len(gs) THEN <<>> ELSE
                                      (IF \E e \in entries : InRange(gs[i], e[2]) THEN <<i>> ELSE <<>>) \o F(i+1)
                          IN F(1)

Batch(c) ==
  CASE c.op = "P2M"  -> { <<"P2M", m>> : m \in SeqToSet(sgroups[LeafLevel+1][c.g]) }
    [] c.op = "L2P"  -> { <<"L2P", m>> : m \in SeqToSet(tgroups[LeafLevel+1][c.g]) }
    [] c.op = "M2M"  -> { <<"M2M", c.l, pc[1], pc[2], ChildCode(pc[2])>> : pc \in PCPairs(sgroups[c.l+2][c.lg], sgroups[c.l+1][c.ug]) }
    [] c.op = "L2L"  -> { <<"L2L", c.l, pc[1], pc[2], ChildCode(pc[2])>> : pc \in PCPairs(tgroups[c.l+2][c.lg], tgroups[c.l+1][c.ug]) }
    \* in-group transfer (single mode only): sources that exist in the target's own group
    [] c.op = "M2LI" -> LET g == tgroups[c.l+1][c.g] IN
                        { <<"M2L", c.l, e[1], e[2], e[3]>> : e \in { x \in M2LEntries(c.l, g) : x[2] \in SeqToSet(g) } }
    \* between groups: entries whose source exists in the source group
    \* (single mode: only entries outside the target group's range reach this call)
    [] c.op = "M2LB" -> LET g == tgroups[c.l+1][c.g]  sg == sgroups[c.l+1][c.sg] IN
                        { <<"M2L", c.l, e[1], e[2], e[3]>> : e \in { x \in M2LEntries(c.l, g) : (Tsm \/ ~InRange(g, x[2])) /\ x[2] \in SeqToSet(sg) } }
    [] c.op = "P2PI" -> LET g == tgroups[LeafLevel+1][c.g] IN
                        { <<"P2P", e[1], e[2], e[3]>> : e \in { x \in P2PEntries(g, TRUE) : x[2] \in SeqToSet(g) } }
    [] c.op = "P2PB" -> LET g == tgroups[LeafLevel+1][c.g]  sg == sgroups[LeafLevel+1][c.sg]
                            ents == IF Tsm THEN P2PEntries(g, FALSE) \cup SelfEntries(g) ELSE { x \in P2PEntries(g, TRUE) : ~InRange(g, x[2]) } IN
                        { <<"P2P", e[1], e[2], e[3]>> : e \in { x \in ents : x[2] \in SeqToSet(sg) } }
    [] c.op = "P2PInner" -> { <<"P2PI", m>> : m \in SeqToSet(tgroups[LeafLevel+1][c.g]) }
\* library assertions that the call would trip (evaluated with assertions on in the sanitizer tier)
AssertOf(c) == CASE c.op = "M2M" -> WalkPC(sgroups[c.l+2][c.lg], sgroups[c.l+1][c.ug])[2]
                 [] c.op = "L2L" -> WalkPC(tgroups[c.l+2][c.lg], tgroups[c.l+1][c.ug])[2]
                 [] OTHER -> ""

SeqOf(n, F(_)) == [i \in 1..n |-> F(i)]
ConcatAll(ss) == LET RECURSIVE F(_)
                     F(i) == IF i > Len(ss) THEN <<>> ELSE ss[i] \o F(i+1)
                 IN F(1)
LevelsUp(st)   == LET RECURSIVE F(_)
                      F(l) == IF l < st THEN <<>> ELSE <<l>> \o F(l-1)
                  IN F(LeafLevel - 1)                       \* LeafLevel-1, ..., st
LevelsDown(st, top) == LET RECURSIVE F(_)
                           F(l) == IF l > top THEN <<>> ELSE <<l>> \o F(l+1)
                       IN F(st)                               \* st, ..., top
MapSeq(s, F(_)) == [i \in 1..Len(s) |-> F(s[i])]

StageP2M(st) == IF FarActive(st) THEN SeqOf(Len(sgroups[LeafLevel+1]), LAMBDA g : [op |-> "P2M", g |-> g]) ELSE <<>>
StageL2P(st) == IF FarActive(st) THEN SeqOf(Len(tgroups[LeafLevel+1]), LAMBDA g : [op |-> "L2P", g |-> g]) ELSE <<>>
StageM2M(st) == ConcatAll(MapSeq(LevelsUp(st), LAMBDA l :
                   MapSeq(GroupPairs(sgroups[l+2], sgroups[l+1]), LAMBDA pr : [op |-> "M2M", l |-> l, lg |-> pr[1], ug |-> pr[2]])))
StageL2L(st) == ConcatAll(MapSeq(LevelsDown(st, LeafLevel - 1), LAMBDA l :
                   MapSeq(GroupPairs(tgroups[l+2], tgroups[l+1]), LAMBDA pr : [op |-> "L2L", l |-> l, lg |-> pr[1], ug |-> pr[2]])))
StageM2L(st) == ConcatAll(MapSeq(LevelsDown(st, LeafLevel), LAMBDA l :
                   ConcatAll(SeqOf(Len(tgroups[l+1]), LAMBDA g :
                     LET grp == tgroups[l+1][g]
                         ext == IF Tsm THEN M2LEntries(l, grp) ELSE { x \in M2LEntries(l, grp) : ~InRange(grp, x[2]) }
                     IN MapSeq(HitGroups(ext, sgroups[l+1]), LAMBDA sg : [op |-> "M2LB", l |-> l, g |-> g, sg |-> sg])
                        \o (IF Tsm THEN <<>> ELSE <<[op |-> "M2LI", l |-> l, g |-> g]>>)))))
StageP2P == ConcatAll(SeqOf(Len(tgroups[LeafLevel+1]), LAMBDA g :
                     LET grp == tgroups[LeafLevel+1][g]
                         ext == IF Tsm THEN P2PEntries(grp, FALSE) \cup SelfEntries(grp) ELSE { x \in P2PEntries(grp, TRUE) : ~InRange(grp, x[2]) }
                     IN MapSeq(HitGroups(ext, sgroups[LeafLevel+1]), LAMBDA sg : [op |-> "P2PB", g |-> g, sg |-> sg])
                        \o (IF Tsm THEN <<>> ELSE <<[op |-> "P2PI", g |-> g], [op |-> "P2PInner", g |-> g]>>)))
\* TbfAlgorithm::execute: the fixed if-chain P2M, M2M, M2L, L2L, L2P, P2P filtered by the flags
Program(flags, st) ==
     (IF "P2M" \in flags THEN StageP2M(st) ELSE <<>>) \o (IF "M2M" \in flags THEN StageM2M(st) ELSE <<>>)
  \o (IF "M2L" \in flags THEN StageM2L(st) ELSE <<>>) \o (IF "L2L" \in flags THEN StageL2L(st) ELSE <<>>)
  \o (IF "L2P" \in flags THEN StageL2P(st) ELSE <<>>) \o (IF "P2P" \in flags THEN StageP2P ELSE <<>>)

AllFlags == {"P2M", "M2M", "M2L", "L2L", "L2P", "P2P"}
Exec(f) == [op |-> "exec", flags |-> f]
(* Histories of operations (C12, C13).                                     *)
OpsOf(h) ==
  CASE h = "full"     -> << Exec(AllFlags) >>
    [] h = "stages3"  -> << Exec({"P2M", "M2M"}), Exec({"M2L", "P2P"}), Exec({"L2L", "L2P"}) >>      \* the documented split
    [] h = "single6"  -> << Exec({"P2M"}), Exec({"M2M"}), Exec({"M2L"}), Exec({"L2L"}), Exec({"L2P"}), Exec({"P2P"}) >>
    [] h = "nearfirst"-> << Exec({"P2P"}), Exec({"P2M", "M2M", "M2L"}), Exec({"L2L", "L2P"}) >>
    [] h = "farnear"  -> << Exec({"P2M", "M2M", "M2L", "L2L", "L2P"}), Exec({"P2P"}) >>
    [] h = "p2ponly"  -> << Exec({"P2P"}) >>
    [] h = "uponly"   -> << Exec({"P2M", "M2M"}) >>
    [] h = "m2lafterup" -> << Exec({"P2M", "M2M"}), Exec({"M2L"}) >>
    [] h = "rebuild"  -> << Exec(AllFlags), [op |-> "rebuild"], Exec(AllFlags) >>
    [] h = "move1"    -> << Exec(AllFlags), [op |-> "move", k |-> 1], [op |-> "rebuild"], Exec(AllFlags) >>
    [] h = "move2"    -> << [op |-> "move", k |-> 1], [op |-> "move", k |-> 2], [op |-> "rebuild"], Exec(AllFlags),
                            [op |-> "move", k |-> 1], [op |-> "rebuild"], Exec(AllFlags) >>
    \* the documented periodic sequence: upward pass, periodic top tree, transfer, downward pass
    [] h = "ptop"     -> << Exec({"P2M", "M2M"}), [op |-> "top"], Exec({"M2L", "P2P"}), Exec({"L2L", "L2P"}) >>
    \* the top tree and the transfer stage are independent ("could be done in parallel"): the other order is as valid
    [] h = "ptopb"    -> << Exec({"P2M", "M2M"}), Exec({"M2L", "P2P"}), [op |-> "top"], Exec({"L2L", "L2P"}) >>

(***************************************************************************)
(* Initial states: every occupancy pattern of the pool (1..MaxPerLeaf      *)
(* particles per occupied leaf), every block size / mode / stop level /    *)
(* history; sharded over TLC processes by the pattern number.              *)
(***************************************************************************)
PoolSeq == SortedSeq(Pool)
NP == Len(PoolSeq)
\* occupancy patterns: functions PoolSeq position -> particle count
Patterns == { f \in [1..NP -> 0..MaxPerLeaf] : LET n == FoldSet(LAMBDA i, acc : acc + f[i], 0, 1..NP) IN n >= 1 /\ n <= MaxParts }
PatternNumber(f) == FoldSet(LAMBDA i, acc : acc + f[i] * ((MaxPerLeaf + 1) ^ (i - 1)), 0, 1..NP)
\* particles in leaf order: pid -> leaf index
PartsOf(f) == LET RECURSIVE F(_)
                  F(i) == IF i > NP THEN <<>> ELSE [j \in 1..f[i] |-> PoolSeq[i]] \o F(i+1)
              IN F(1)
EmptyExp(groups) == [l \in Levels |-> [c \in CellsAt(groups, l) |-> EmptyBag]]
ZeroCnt == [P2M |-> 0, M2M |-> 0, M2L |-> 0, L2L |-> 0, L2P |-> 0, P2P |-> 0, P2PInner |-> 0]

Init == \E fs \in Patterns, ft \in Patterns, b \in BlockSizes, o \in GroupModes, st \in StopLevels, h \in Histories, n \in AboveLevelsP1 :
          /\ PatternNumber(fs) % NbShards = Shard
          /\ (h \in {"ptop", "ptopb"} \/ n = CHOOSE m \in AboveLevelsP1 : TRUE) /\ above = n - 1
          /\ (~Tsm => ft = fs)
          /\ sparts = PartsOf(fs) /\ tparts = PartsOf(ft)
          /\ bs = b /\ ogpp = o /\ stop = st /\ hname = h
          /\ sgroups = BuildTree(SeqToSet(PartsOf(fs)), b, o)
          /\ tgroups = BuildTree(SeqToSet(PartsOf(ft)), b, o)
          /\ mp = EmptyExp(BuildTree(SeqToSet(PartsOf(fs)), b, o))
          /\ lo = EmptyExp(BuildTree(SeqToSet(PartsOf(ft)), b, o))
          /\ rhs = [p \in 1..Len(PartsOf(ft)) |-> EmptyBag]
          /\ pending = {}                 \* set by the first StartOp of a pass
          /\ pcs = <<>> /\ ops = OpsOf(h) /\ cnt = ZeroCnt /\ elemDigest = 0 /\ bad = "" /\ step = 0
          /\ init0 = [sparts |-> PartsOf(fs), tparts |-> PartsOf(ft), sgroups |-> BuildTree(SeqToSet(PartsOf(fs)), b, o), tgroups |-> BuildTree(SeqToSet(PartsOf(ft)), b, o)]

(* moving particle k: to the "next" leaf of the pool (cyclic), a           *)
(* deterministic displacement that empties / creates leaves.               *)
NextPoolLeaf(m) == LET i == CHOOSE j \in 1..NP : PoolSeq[j] = m IN PoolSeq[(i % NP) + 1]

(***************************************************************************)
(* The periodic top tree (src/algorithms/periodic/                         *)
(* tbfalgorithmperiodictoptree.hpp), transcribed at the grain of its three *)
(* passes.  Its tree has height above+5; its level above+3 is the original *)
(* box (fed by the level-1 multipoles of the real tree), each level above  *)
(* is a cube of 2^Dim copies of the level below with the original box in   *)
(* the LOW corner (child code 0 on the way down).  Transfer windows:       *)
(* -3..3 when above = 0; otherwise -3..2 at the top level (3) and -2..3    *)
(* below, offsets of Chebyshev norm > 1 only.                              *)
(***************************************************************************)
BoxLevelTop == above + 3
WTop(L) == W(0) * Pow2(BoxLevelTop - L)
TCTop(L, code) == [d \in Dims |-> (IF Bit(code, Dim - d) = 1 THEN 1 ELSE 0 - 1) * (WTop(L) \div 4)]
VMp(L) == LET RECURSIVE F(_)
              F(k) == IF k = BoxLevelTop THEN SumOver(SCells(1), LAMBDA c : ShiftBag(mp[1][c], TCTop(BoxLevelTop, ChildCode(c))))
                      ELSE LET lower == F(k + 1) IN SumOver(0..(Pow2(Dim) - 1), LAMBDA code : ShiftBag(lower, TCTop(k, code)))
          IN F(L)
TopWindow(L) == IF above = 0 THEN (0-3)..3 ELSE IF L = 3 THEN (0-3)..2 ELSE (0-2)..3
VM2L(L) == LET m == VMp(L) IN SumOver({ o \in [Dims -> TopWindow(L)] : Cheb(o) > 1 }, LAMBDA o : ShiftBag(m, Scale(o, WTop(L))))
VLo(L) == LET RECURSIVE F(_)
              F(k) == IF k = 3 THEN VM2L(3) ELSE VM2L(k) (+) ShiftBag(F(k - 1), Scale(TCTop(k - 1, 0), 0 - 1))
          IN F(L)
TopInto(c) == ShiftBag(VLo(BoxLevelTop), Scale(TCTop(BoxLevelTop, ChildCode(c)), 0 - 1))
\* the repetition interval the library reports (getRepetitionsIntervals / getNbRepetitionsPerDim)
IntervalLo == IF above = 0 - 1 THEN 0 - 1 ELSE IF above = 0 THEN 0 - 3 ELSE 0 - (3 * Pow2(above))
IntervalHi == IF above = 0 - 1 THEN 1 ELSE IF above = 0 THEN 3 ELSE 3 * Pow2(above) - 1

StartOp ==
  /\ pcs = <<>> /\ ops # <<>> /\ bad = ""
  /\ LET o == Head(ops) IN
     \/ /\ o.op = "exec"
        /\ pcs' = Program(o.flags, stop)
        \* a new pass starts when nothing is pending (first execute, or after the previous pass completed / a rebuild)
        /\ pending' = IF pending = {} /\ step = 0 THEN Elementary(stop) ELSE pending
        /\ UNCHANGED <<sparts, tparts, sgroups, tgroups, mp, lo, rhs>>
     \/ /\ o.op = "move" /\ o.k <= Len(tparts)
        /\ tparts' = [tparts EXCEPT ![o.k] = NextPoolLeaf(@)]
        /\ sparts' = IF Tsm THEN sparts ELSE tparts'
        /\ UNCHANGED <<pcs, pending, sgroups, tgroups, mp, lo, rhs>>
     \/ /\ o.op = "move" /\ o.k > Len(tparts)
        /\ UNCHANGED <<sparts, tparts, pcs, pending, sgroups, tgroups, mp, lo, rhs>>
     \/ /\ o.op = "top"           \* TbfAlgorithmPeriodicTopTree::execute: images beyond the 3^Dim surrounding boxes
        /\ lo' = IF above >= 0 THEN [lo EXCEPT ![1] = [c \in DOMAIN @ |-> @[c] (+) TopInto(c)]] ELSE lo
        /\ UNCHANGED <<sparts, tparts, pcs, pending, sgroups, tgroups, mp, rhs>>
     \/ /\ o.op = "rebuild"       \* TbfTree::rebuild(): re-bin, keep results, reset expansions
        /\ sgroups' = BuildTree(SOcc, bs, ogpp) /\ tgroups' = BuildTree(TOcc, bs, ogpp)
        /\ mp' = EmptyExp(BuildTree(SOcc, bs, ogpp)) /\ lo' = EmptyExp(BuildTree(TOcc, bs, ogpp))
        /\ pending' = {} /\ pcs' = <<>>
        /\ UNCHANGED <<sparts, tparts, rhs>>
  /\ bad' = IF Head(ops).op = "top" /\ (\E c \in SCells(1) : IntoMp(pending, 1, c) # {})
            THEN "periodic top tree executed before the level-1 multipoles are complete" ELSE bad
  /\ ops' = Tail(ops) /\ step' = IF Head(ops).op = "rebuild" THEN 0 ELSE step
  /\ UNCHANGED <<bs, ogpp, stop, cnt, elemDigest, hname, above, init0>>

Call ==
  /\ pcs # <<>> /\ bad = ""
  /\ LET c == Head(pcs)
         B == Batch(c)
         a == AssertOf(c)
         \* refinement of L1: every member pending, guards hold w.r.t. what is still pending after removing the batch's own M2M/L2L of other targets
         refines == B \subseteq pending /\ \A e \in B : Guard(e, pending \ B)
     IN /\ bad' = IF a # "" THEN a
                  ELSE IF \E e \in B : Guard(e, pending \ B) # GuardFast(e, pending \ B) THEN "specification: Guard and GuardFast disagree"
                  ELSE IF ~refines THEN "wrapper call " \o c.op \o " is not an enabled batch of the dataflow specification"
                  ELSE ""
        /\ mp' = MpAfter(mp, B) /\ lo' = LoAfter(lo, mp, B) /\ rhs' = RhsAfter(rhs, lo, B)
        /\ cnt' = CntAfter(cnt, B)
        /\ elemDigest' = (elemDigest + DigestOfSet(B)) % 1000003
        /\ pending' = pending \ B
  /\ pcs' = Tail(pcs) /\ step' = step + 1
  /\ UNCHANGED <<sparts, tparts, bs, ogpp, stop, sgroups, tgroups, ops, hname, above, init0>>

Next == StartOp \/ Call
Spec == Init /\ [][Next]_vars
Done == pcs = <<>> /\ ops = <<>>

(***************************************************************************)
(* Invariants.                                                             *)
(***************************************************************************)
NoAssertFail == bad = ""
TreeOK == /\ TreeInvariant(sgroups, SOcc, bs, ogpp) /\ TreeInvariant(tgroups, TOcc, bs, ogpp)
          /\ (~Tsm => sgroups = tgroups)
\* a stale tree (particles moved, rebuild not yet called) is allowed between move and rebuild
TreeOKWhenBuilt == (pcs # <<>> \/ Done) => TreeOK
LeafCentre(m) == Centre(m, LeafLevel)
BoxW == W(0)       \* box width in half-leaf units
\* C02: every contribution held anywhere is geometrically consistent (modulo the box when periodic)
ConsistentEntry(e, holderCentre) ==
    \A d \in Dims : LET diff == (holderCentre[d] + e[2][d]) - LeafCentre(sparts[e[1]])[d] IN
                    IF Periodic THEN diff % BoxW = 0 ELSE diff = 0
\* (expansions are checked while a tree is current: between a move and the next rebuild they are stale by construction;
\*  results accumulated before a move keep the displacements of the old positions, so they are checked in move-free histories)
Moving == hname \in {"move1", "move2"}
GeometricConsistency ==
    /\ (pcs # <<>> \/ Done \/ ~Moving) =>
         /\ \A l \in Levels : \A c \in DOMAIN mp[l] : \A e \in DOMAIN mp[l][c] : ConsistentEntry(e, Centre(c, l))
         /\ \A l \in Levels : \A c \in DOMAIN lo[l] : \A e \in DOMAIN lo[l][c] : ConsistentEntry(e, Centre(c, l))
    /\ ~Moving => \A p \in DOMAIN rhs : \A e \in DOMAIN rhs[p] : ConsistentEntry(e, LeafCentre(tparts[p]))
\* C15 (model side): a batch never exceeds the capacity of the wrapper's stack arrays
BatchWithinCapacity == pcs # <<>> =>
    LET B == Batch(Head(pcs)) IN
      /\ \A e \in { x \in B : x[1] \in {"M2M", "L2L"} } : Cardinality({ y \in B : y[1] = e[1] /\ y[3] = e[3] }) <= Pow2(Dim)
      /\ \A e \in { x \in B : x[1] = "M2L" } : Cardinality({ y \in B : y[1] = "M2L" /\ y[3] = e[3] }) <= 6^Dim - 3^Dim
\* C12: nothing is written above the upper working level, and each stage writes only its own outputs (action property)
NothingAboveStopLevel == /\ \A l \in Levels : l < stop => (\A c \in DOMAIN mp[l] : mp[l][c] = EmptyBag)
                         /\ \A l \in Levels : l < stop => (\A c \in DOMAIN lo[l] : lo[l][c] = EmptyBag)
WriteSets == [][ pcs # <<>> =>
                   LET o == Head(pcs).op IN
                     /\ (o \in {"P2M", "M2M"} => UNCHANGED <<lo, rhs>>)
                     /\ (o \in {"M2LI", "M2LB", "L2L"} => UNCHANGED <<mp, rhs>>)
                     /\ (o \in {"L2P", "P2PI", "P2PB", "P2PInner"} => UNCHANGED <<mp, lo>>) ]_vars

\* ---- closed forms of the final state --------------------------------------------------------------
MpExpected(l, c) == IF l >= stop /\ FarActive(stop)
                    THEN BagOfSet({ <<q, VSub(LeafCentre(sparts[q]), Centre(c, l))>> : q \in { r \in 1..Len(sparts) : Anc(sparts[r], l) = c } })
                    ELSE EmptyBag
\* contributions received at level k by the ancestor a of (l, c) from its interaction list, seen from the centre of c
LoFromLevel(l, c, k) ==
   LET a == AncOf(c, l, k) IN
   SumOver({ y \in ILTab[k][a] : y[1] \in SCells(k) }, LAMBDA x :
            BagOfSet({ <<q, VAdd(VSub(LeafCentre(sparts[q]), Centre(x[1], k)), VAdd(Scale(Dec7(x[2]), W(k)), VSub(Centre(a, k), Centre(c, l))))>>
                        : q \in { r \in 1..Len(sparts) : Anc(sparts[r], k) = x[1] } }))
LoExpected(l, c) == IF l >= stop /\ FarActive(stop) THEN SumOver(stop..l, LAMBDA k : LoFromLevel(l, c, k)) ELSE EmptyBag
NearExpected(p) ==
   LET leaf == tparts[p] IN
   SumOver({ y \in NBTab[leaf] : y[1] \in SOcc }, LAMBDA x : BagOfSet({ <<q, Scale(Dec3(x[2]), 2)>> : q \in SPids({x[1]}) }))
   (+) (IF Tsm THEN BagOfSet({ <<q, Zero>> : q \in SPids({leaf}) }) ELSE BagOfSet({ <<q, Zero>> : q \in TPids({leaf}) \ {p} }))
RhsExpected(p) == NearExpected(p) (+) (IF FarActive(stop) THEN LoExpected(LeafLevel, tparts[p]) ELSE EmptyBag)
PassesDone == Cardinality({ i \in 1..Len(OpsOf(hname)) : OpsOf(hname)[i].op = "exec" /\ "P2P" \in OpsOf(hname)[i].flags })
FullHistory == hname \in {"full", "stages3", "single6", "nearfirst", "farnear"}
\* C01 (as definitions): multipoles and locals at and below the working level are what the statement says
MultipoleDef == (Done /\ FullHistory) => \A l \in Levels : \A c \in DOMAIN mp[l] : mp[l][c] = MpExpected(l, c)
LocalDef     == (Done /\ FullHistory) => \A l \in Levels : \A c \in DOMAIN lo[l] : lo[l][c] = LoExpected(l, c)
RhsDef       == (Done /\ FullHistory) => \A p \in DOMAIN rhs : rhs[p] = RhsExpected(p)
Completes    == (Done /\ FullHistory) => pending = {}
\* C01 / C09: every pair exactly once (the far field is complete only when the working levels reach level 2, resp. 1 when periodic)
ExactlyOnce == (Done /\ FullHistory /\ ~Periodic /\ stop <= 2) =>
    \A p \in DOMAIN rhs : rhs[p] = BagOfSet({ <<q, VSub(LeafCentre(sparts[q]), LeafCentre(tparts[p]))>> : q \in (1..Len(sparts)) \ (IF Tsm THEN {} ELSE {p}) })
\* periodic in-box part: every image of the 3^Dim surrounding boxes, once, except the particle itself in the central box
ImageCube == [Dims -> (0-1)..1]
ImagesOnceInner == (Done /\ FullHistory /\ Periodic /\ stop <= 1) =>
    \A p \in DOMAIN rhs : rhs[p] = BagOfSet({ <<x[1], VAdd(VSub(LeafCentre(sparts[x[1]]), LeafCentre(tparts[p])), Scale(x[2], BoxW))>> :
                                                 x \in { y \in (1..Len(sparts)) \X ImageCube : Tsm \/ ~(y[1] = p /\ y[2] = Zero) } })
\* C10: with the top tree, one contribution from every image of the repetition cube the library reports (none from itself in the central box)
ImagesExactlyOnce == (Done /\ hname \in {"ptop", "ptopb"} /\ Periodic /\ stop <= 1) =>
    \A p \in DOMAIN rhs : rhs[p] = BagOfSet({ <<x[1], VAdd(VSub(LeafCentre(sparts[x[1]]), LeafCentre(tparts[p])), Scale(x[2], BoxW))>> :
                                                 x \in { y \in (1..Len(sparts)) \X [Dims -> IntervalLo..IntervalHi] : Tsm \/ ~(y[1] = p /\ y[2] = Zero) } })
\* C18: the counters equal the cardinalities of the elementary sets
CountersEqualElementary == (Done /\ FullHistory) =>
    LET E == Elementary(stop) IN
    /\ cnt.P2M = Cardinality({ e \in E : e[1] = "P2M" }) /\ cnt.M2M = Cardinality({ e \in E : e[1] = "M2M" })
    /\ cnt.M2L = Cardinality({ e \in E : e[1] = "M2L" }) /\ cnt.L2L = Cardinality({ e \in E : e[1] = "L2L" })
    /\ cnt.L2P = Cardinality({ e \in E : e[1] = "L2P" })
    /\ cnt.P2P = FoldSet(LAMBDA e, acc : acc + Cardinality(SPids({e[3]})) * Cardinality(TPids({e[2]})), 0, { e \in E : e[1] = "P2P" })
    /\ cnt.P2PInner = FoldSet(LAMBDA e, acc : acc + LET n == Cardinality(TPids({e[2]})) IN n * n - n, 0, { e \in E : e[1] = "P2PI" })
\* C08: the digest of the elementary interactions performed is a function of the occupancy only (grouping-free definition)
ElementarySetIndependentOfGrouping == (Done /\ FullHistory) => elemDigest = DigestOfSet(Elementary(stop))
\* C12: staged histories end in the state of the full run (the closed forms do not mention the history)
\* C13: after rebuild + one more execute the results hold one more full interaction
RebuildAddsOneInteraction == (Done /\ hname \in {"rebuild"}) =>
    /\ \A p \in DOMAIN rhs : rhs[p] = RhsExpected(p) (+) RhsExpected(p)
    /\ \A l \in Levels : \A c \in DOMAIN mp[l] : mp[l][c] = MpExpected(l, c)
    /\ \A l \in Levels : \A c \in DOMAIN lo[l] : lo[l][c] = LoExpected(l, c)
RebuildResets == (Done /\ hname \in {"move1", "move2"}) =>
    /\ \A l \in Levels : \A c \in DOMAIN mp[l] : mp[l][c] = MpExpected(l, c)
    /\ \A l \in Levels : \A c \in DOMAIN lo[l] : lo[l][c] = LoExpected(l, c)
    /\ TreeOK

(***************************************************************************)
(* Emission of one JSON line per finished scenario (spec -> code replay).  *)
(***************************************************************************)
LevelDigest(x) == [l \in 1..Height |-> << Cardinality(DOMAIN x[l-1]),
                                           FoldSet(LAMBDA c, acc : acc + SumMult(x[l-1][c]), 0, DOMAIN x[l-1]),
                                           FoldSet(LAMBDA c, acc : acc + BagDigest(x[l-1][c]), 0, DOMAIN x[l-1]) >>]
RhsDigest == << FoldSet(LAMBDA p, acc : acc + SumMult(rhs[p]), 0, DOMAIN rhs), FoldSet(LAMBDA p, acc : acc + BagDigest(rhs[p]), 0, DOMAIN rhs) >>
Emit == (EmitJson /\ Done) =>
  PrintT(ToJson([ k |-> "scn", mode |-> Mode, dim |-> Dim, height |-> Height, periodic |-> Periodic,
                  sparts |-> init0.sparts, tparts |-> init0.tparts, bs |-> bs, ogpp |-> ogpp, stop |-> stop, hist |-> hname,
                  sgroups |-> init0.sgroups, tgroups |-> init0.tgroups, fsgroups |-> sgroups, ftgroups |-> tgroups,
                  mpd |-> LevelDigest(mp), lod |-> LevelDigest(lo), rhsd |-> RhsDigest,
                  cnt |-> <<cnt.P2M, cnt.M2M, cnt.M2L, cnt.L2L, cnt.L2P, cnt.P2P, cnt.P2PInner>>,
                  elem |-> elemDigest, nelem |-> Cardinality(Elementary(stop)), bad |-> bad,
                  above |-> above, ilo |-> IntervalLo, ihi |-> IntervalHi ]))
=============================================================================
