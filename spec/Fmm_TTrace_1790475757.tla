---- MODULE Fmm_TTrace_1790475757 ----
EXTENDS Sequences, TLCExt, Toolbox, Fmm, Naturals, TLC

_expression ==
    LET Fmm_TEExpression == INSTANCE Fmm_TEExpression
    IN Fmm_TEExpression!expression
----

_trace ==
    LET Fmm_TETrace == INSTANCE Fmm_TETrace
    IN Fmm_TETrace!trace
----

_inv ==
    ~(
        TLCGet("level") = Len(_TETrace)
        /\
        pcs = (<<>>)
        /\
        lo = ((0 :> (0 :> <<>>) @@ 1 :> (0 :> <<>>) @@ 2 :> <<<<>>>> @@ 3 :> (3 :> <<>>) @@ 4 :> (7 :> <<>>)))
        /\
        mp = ((0 :> (0 :> <<>>) @@ 1 :> (0 :> <<>>) @@ 2 :> <<(<<1, <<3>>>> :> 1)>> @@ 3 :> (3 :> (<<1, <<1>>>> :> 1)) @@ 4 :> (7 :> (<<1, <<0>>>> :> 1))))
        /\
        elemDigest = (27502)
        /\
        bad = ("")
        /\
        tparts = (<<0>>)
        /\
        pending = ({})
        /\
        cnt = ([P2M |-> 1, M2M |-> 2, M2L |-> 0, L2L |-> 2, L2P |-> 1, P2P |-> 0, P2PInner |-> 0])
        /\
        ogpp = (FALSE)
        /\
        sgroups = (<<<<<<0>>>>, <<<<0>>>>, <<<<1>>>>, <<<<3>>>>, <<<<7>>>>>>)
        /\
        bs = (1)
        /\
        ops = (<<[op |-> "rebuild"], [op |-> "exec", flags |-> {"P2M", "M2M", "M2L", "L2L", "L2P", "P2P"}]>>)
        /\
        stop = (2)
        /\
        sparts = (<<0>>)
        /\
        tgroups = (<<<<<<0>>>>, <<<<0>>>>, <<<<1>>>>, <<<<3>>>>, <<<<7>>>>>>)
        /\
        step = (11)
        /\
        rhs = (<<<<>>>>)
        /\
        hname = ("move1")
    )
----

_init ==
    /\ sparts = _TETrace[1].sparts
    /\ ogpp = _TETrace[1].ogpp
    /\ bs = _TETrace[1].bs
    /\ tparts = _TETrace[1].tparts
    /\ rhs = _TETrace[1].rhs
    /\ sgroups = _TETrace[1].sgroups
    /\ step = _TETrace[1].step
    /\ tgroups = _TETrace[1].tgroups
    /\ pending = _TETrace[1].pending
    /\ elemDigest = _TETrace[1].elemDigest
    /\ pcs = _TETrace[1].pcs
    /\ lo = _TETrace[1].lo
    /\ mp = _TETrace[1].mp
    /\ cnt = _TETrace[1].cnt
    /\ stop = _TETrace[1].stop
    /\ ops = _TETrace[1].ops
    /\ hname = _TETrace[1].hname
    /\ bad = _TETrace[1].bad
----

_next ==
    /\ \E i,j \in DOMAIN _TETrace:
        /\ \/ /\ j = i + 1
              /\ i = TLCGet("level")
        /\ sparts  = _TETrace[i].sparts
        /\ sparts' = _TETrace[j].sparts
        /\ ogpp  = _TETrace[i].ogpp
        /\ ogpp' = _TETrace[j].ogpp
        /\ bs  = _TETrace[i].bs
        /\ bs' = _TETrace[j].bs
        /\ tparts  = _TETrace[i].tparts
        /\ tparts' = _TETrace[j].tparts
        /\ rhs  = _TETrace[i].rhs
        /\ rhs' = _TETrace[j].rhs
        /\ sgroups  = _TETrace[i].sgroups
        /\ sgroups' = _TETrace[j].sgroups
        /\ step  = _TETrace[i].step
        /\ step' = _TETrace[j].step
        /\ tgroups  = _TETrace[i].tgroups
        /\ tgroups' = _TETrace[j].tgroups
        /\ pending  = _TETrace[i].pending
        /\ pending' = _TETrace[j].pending
        /\ elemDigest  = _TETrace[i].elemDigest
        /\ elemDigest' = _TETrace[j].elemDigest
        /\ pcs  = _TETrace[i].pcs
        /\ pcs' = _TETrace[j].pcs
        /\ lo  = _TETrace[i].lo
        /\ lo' = _TETrace[j].lo
        /\ mp  = _TETrace[i].mp
        /\ mp' = _TETrace[j].mp
        /\ cnt  = _TETrace[i].cnt
        /\ cnt' = _TETrace[j].cnt
        /\ stop  = _TETrace[i].stop
        /\ stop' = _TETrace[j].stop
        /\ ops  = _TETrace[i].ops
        /\ ops' = _TETrace[j].ops
        /\ hname  = _TETrace[i].hname
        /\ hname' = _TETrace[j].hname
        /\ bad  = _TETrace[i].bad
        /\ bad' = _TETrace[j].bad

\* Uncomment the ASSUME below to write the states of the error trace
\* to the given file in Json format. Note that you can pass any tuple
\* to `JsonSerialize`. For example, a sub-sequence of _TETrace.
    \* ASSUME
    \*     LET J == INSTANCE Json
    \*         IN J!JsonSerialize("Fmm_TTrace_1790475757.json", _TETrace)

=============================================================================

 Note that you can extract this module `Fmm_TEExpression`
  to a dedicated file to reuse `expression` (the module in the 
  dedicated `Fmm_TEExpression.tla` file takes precedence 
  over the module `Fmm_TEExpression` below).

---- MODULE Fmm_TEExpression ----
EXTENDS Sequences, TLCExt, Toolbox, Fmm, Naturals, TLC

expression == 
    [
        \* To hide variables of the `Fmm` spec from the error trace,
        \* remove the variables below.  The trace will be written in the order
        \* of the fields of this record.
        sparts |-> sparts
        ,ogpp |-> ogpp
        ,bs |-> bs
        ,tparts |-> tparts
        ,rhs |-> rhs
        ,sgroups |-> sgroups
        ,step |-> step
        ,tgroups |-> tgroups
        ,pending |-> pending
        ,elemDigest |-> elemDigest
        ,pcs |-> pcs
        ,lo |-> lo
        ,mp |-> mp
        ,cnt |-> cnt
        ,stop |-> stop
        ,ops |-> ops
        ,hname |-> hname
        ,bad |-> bad
        
        \* Put additional constant-, state-, and action-level expressions here:
        \* ,_stateNumber |-> _TEPosition
        \* ,_spartsUnchanged |-> sparts = sparts'
        
        \* Format the `sparts` variable as Json value.
        \* ,_spartsJson |->
        \*     LET J == INSTANCE Json
        \*     IN J!ToJson(sparts)
        
        \* Lastly, you may build expressions over arbitrary sets of states by
        \* leveraging the _TETrace operator.  For example, this is how to
        \* count the number of times a spec variable changed up to the current
        \* state in the trace.
        \* ,_spartsModCount |->
        \*     LET F[s \in DOMAIN _TETrace] ==
        \*         IF s = 1 THEN 0
        \*         ELSE IF _TETrace[s].sparts # _TETrace[s-1].sparts
        \*             THEN 1 + F[s-1] ELSE F[s-1]
        \*     IN F[_TEPosition - 1]
    ]

=============================================================================



Parsing and semantic processing can take forever if the trace below is long.
 In this case, it is advised to uncomment the module below to deserialize the
 trace from a generated binary file.

\*
\*---- MODULE Fmm_TETrace ----
\*EXTENDS IOUtils, Fmm, TLC
\*
\*trace == IODeserialize("Fmm_TTrace_1790475757.bin", TRUE)
\*
\*=============================================================================
\*

---- MODULE Fmm_TETrace ----
EXTENDS Fmm, TLC

trace == 
    <<
    ([pcs |-> <<>>,lo |-> (0 :> (0 :> <<>>) @@ 1 :> (0 :> <<>>) @@ 2 :> <<<<>>>> @@ 3 :> (3 :> <<>>) @@ 4 :> (7 :> <<>>)),mp |-> (0 :> (0 :> <<>>) @@ 1 :> (0 :> <<>>) @@ 2 :> <<<<>>>> @@ 3 :> (3 :> <<>>) @@ 4 :> (7 :> <<>>)),elemDigest |-> 0,bad |-> "",tparts |-> <<7>>,pending |-> {},cnt |-> [P2M |-> 0, M2M |-> 0, M2L |-> 0, L2L |-> 0, L2P |-> 0, P2P |-> 0, P2PInner |-> 0],ogpp |-> FALSE,sgroups |-> <<<<<<0>>>>, <<<<0>>>>, <<<<1>>>>, <<<<3>>>>, <<<<7>>>>>>,bs |-> 1,ops |-> <<[op |-> "exec", flags |-> {"P2M", "M2M", "M2L", "L2L", "L2P", "P2P"}], [op |-> "move", k |-> 1], [op |-> "rebuild"], [op |-> "exec", flags |-> {"P2M", "M2M", "M2L", "L2L", "L2P", "P2P"}]>>,stop |-> 2,sparts |-> <<7>>,tgroups |-> <<<<<<0>>>>, <<<<0>>>>, <<<<1>>>>, <<<<3>>>>, <<<<7>>>>>>,step |-> 0,rhs |-> <<<<>>>>,hname |-> "move1"]),
    ([pcs |-> <<[g |-> 1, op |-> "P2M"], [l |-> 3, op |-> "M2M", lg |-> 1, ug |-> 1], [l |-> 2, op |-> "M2M", lg |-> 1, ug |-> 1], [l |-> 2, g |-> 1, op |-> "M2LI"], [l |-> 3, g |-> 1, op |-> "M2LI"], [l |-> 4, g |-> 1, op |-> "M2LI"], [l |-> 2, op |-> "L2L", lg |-> 1, ug |-> 1], [l |-> 3, op |-> "L2L", lg |-> 1, ug |-> 1], [g |-> 1, op |-> "L2P"], [g |-> 1, op |-> "P2PI"], [g |-> 1, op |-> "P2PInner"]>>,lo |-> (0 :> (0 :> <<>>) @@ 1 :> (0 :> <<>>) @@ 2 :> <<<<>>>> @@ 3 :> (3 :> <<>>) @@ 4 :> (7 :> <<>>)),mp |-> (0 :> (0 :> <<>>) @@ 1 :> (0 :> <<>>) @@ 2 :> <<<<>>>> @@ 3 :> (3 :> <<>>) @@ 4 :> (7 :> <<>>)),elemDigest |-> 0,bad |-> "",tparts |-> <<7>>,pending |-> {<<"P2M", 7>>, <<"L2P", 7>>, <<"P2PI", 7>>, <<"M2M", 2, 1, 3, 1>>, <<"M2M", 3, 3, 7, 1>>, <<"L2L", 2, 1, 3, 1>>, <<"L2L", 3, 3, 7, 1>>},cnt |-> [P2M |-> 0, M2M |-> 0, M2L |-> 0, L2L |-> 0, L2P |-> 0, P2P |-> 0, P2PInner |-> 0],ogpp |-> FALSE,sgroups |-> <<<<<<0>>>>, <<<<0>>>>, <<<<1>>>>, <<<<3>>>>, <<<<7>>>>>>,bs |-> 1,ops |-> <<[op |-> "move", k |-> 1], [op |-> "rebuild"], [op |-> "exec", flags |-> {"P2M", "M2M", "M2L", "L2L", "L2P", "P2P"}]>>,stop |-> 2,sparts |-> <<7>>,tgroups |-> <<<<<<0>>>>, <<<<0>>>>, <<<<1>>>>, <<<<3>>>>, <<<<7>>>>>>,step |-> 0,rhs |-> <<<<>>>>,hname |-> "move1"]),
    ([pcs |-> <<[l |-> 3, op |-> "M2M", lg |-> 1, ug |-> 1], [l |-> 2, op |-> "M2M", lg |-> 1, ug |-> 1], [l |-> 2, g |-> 1, op |-> "M2LI"], [l |-> 3, g |-> 1, op |-> "M2LI"], [l |-> 4, g |-> 1, op |-> "M2LI"], [l |-> 2, op |-> "L2L", lg |-> 1, ug |-> 1], [l |-> 3, op |-> "L2L", lg |-> 1, ug |-> 1], [g |-> 1, op |-> "L2P"], [g |-> 1, op |-> "P2PI"], [g |-> 1, op |-> "P2PInner"]>>,lo |-> (0 :> (0 :> <<>>) @@ 1 :> (0 :> <<>>) @@ 2 :> <<<<>>>> @@ 3 :> (3 :> <<>>) @@ 4 :> (7 :> <<>>)),mp |-> (0 :> (0 :> <<>>) @@ 1 :> (0 :> <<>>) @@ 2 :> <<<<>>>> @@ 3 :> (3 :> <<>>) @@ 4 :> (7 :> (<<1, <<0>>>> :> 1))),elemDigest |-> 1226,bad |-> "",tparts |-> <<7>>,pending |-> {<<"L2P", 7>>, <<"P2PI", 7>>, <<"M2M", 2, 1, 3, 1>>, <<"M2M", 3, 3, 7, 1>>, <<"L2L", 2, 1, 3, 1>>, <<"L2L", 3, 3, 7, 1>>},cnt |-> [P2M |-> 1, M2M |-> 0, M2L |-> 0, L2L |-> 0, L2P |-> 0, P2P |-> 0, P2PInner |-> 0],ogpp |-> FALSE,sgroups |-> <<<<<<0>>>>, <<<<0>>>>, <<<<1>>>>, <<<<3>>>>, <<<<7>>>>>>,bs |-> 1,ops |-> <<[op |-> "move", k |-> 1], [op |-> "rebuild"], [op |-> "exec", flags |-> {"P2M", "M2M", "M2L", "L2L", "L2P", "P2P"}]>>,stop |-> 2,sparts |-> <<7>>,tgroups |-> <<<<<<0>>>>, <<<<0>>>>, <<<<1>>>>, <<<<3>>>>, <<<<7>>>>>>,step |-> 1,rhs |-> <<<<>>>>,hname |-> "move1"]),
    ([pcs |-> <<[l |-> 2, op |-> "M2M", lg |-> 1, ug |-> 1], [l |-> 2, g |-> 1, op |-> "M2LI"], [l |-> 3, g |-> 1, op |-> "M2LI"], [l |-> 4, g |-> 1, op |-> "M2LI"], [l |-> 2, op |-> "L2L", lg |-> 1, ug |-> 1], [l |-> 3, op |-> "L2L", lg |-> 1, ug |-> 1], [g |-> 1, op |-> "L2P"], [g |-> 1, op |-> "P2PI"], [g |-> 1, op |-> "P2PInner"]>>,lo |-> (0 :> (0 :> <<>>) @@ 1 :> (0 :> <<>>) @@ 2 :> <<<<>>>> @@ 3 :> (3 :> <<>>) @@ 4 :> (7 :> <<>>)),mp |-> (0 :> (0 :> <<>>) @@ 1 :> (0 :> <<>>) @@ 2 :> <<<<>>>> @@ 3 :> (3 :> (<<1, <<1>>>> :> 1)) @@ 4 :> (7 :> (<<1, <<0>>>> :> 1))),elemDigest |-> 3766,bad |-> "",tparts |-> <<7>>,pending |-> {<<"L2P", 7>>, <<"P2PI", 7>>, <<"M2M", 2, 1, 3, 1>>, <<"L2L", 2, 1, 3, 1>>, <<"L2L", 3, 3, 7, 1>>},cnt |-> [P2M |-> 1, M2M |-> 1, M2L |-> 0, L2L |-> 0, L2P |-> 0, P2P |-> 0, P2PInner |-> 0],ogpp |-> FALSE,sgroups |-> <<<<<<0>>>>, <<<<0>>>>, <<<<1>>>>, <<<<3>>>>, <<<<7>>>>>>,bs |-> 1,ops |-> <<[op |-> "move", k |-> 1], [op |-> "rebuild"], [op |-> "exec", flags |-> {"P2M", "M2M", "M2L", "L2L", "L2P", "P2P"}]>>,stop |-> 2,sparts |-> <<7>>,tgroups |-> <<<<<<0>>>>, <<<<0>>>>, <<<<1>>>>, <<<<3>>>>, <<<<7>>>>>>,step |-> 2,rhs |-> <<<<>>>>,hname |-> "move1"]),
    ([pcs |-> <<[l |-> 2, g |-> 1, op |-> "M2LI"], [l |-> 3, g |-> 1, op |-> "M2LI"], [l |-> 4, g |-> 1, op |-> "M2LI"], [l |-> 2, op |-> "L2L", lg |-> 1, ug |-> 1], [l |-> 3, op |-> "L2L", lg |-> 1, ug |-> 1], [g |-> 1, op |-> "L2P"], [g |-> 1, op |-> "P2PI"], [g |-> 1, op |-> "P2PInner"]>>,lo |-> (0 :> (0 :> <<>>) @@ 1 :> (0 :> <<>>) @@ 2 :> <<<<>>>> @@ 3 :> (3 :> <<>>) @@ 4 :> (7 :> <<>>)),mp |-> (0 :> (0 :> <<>>) @@ 1 :> (0 :> <<>>) @@ 2 :> <<(<<1, <<3>>>> :> 1)>> @@ 3 :> (3 :> (<<1, <<1>>>> :> 1)) @@ 4 :> (7 :> (<<1, <<0>>>> :> 1))),elemDigest |-> 6075,bad |-> "",tparts |-> <<7>>,pending |-> {<<"L2P", 7>>, <<"P2PI", 7>>, <<"L2L", 2, 1, 3, 1>>, <<"L2L", 3, 3, 7, 1>>},cnt |-> [P2M |-> 1, M2M |-> 2, M2L |-> 0, L2L |-> 0, L2P |-> 0, P2P |-> 0, P2PInner |-> 0],ogpp |-> FALSE,sgroups |-> <<<<<<0>>>>, <<<<0>>>>, <<<<1>>>>, <<<<3>>>>, <<<<7>>>>>>,bs |-> 1,ops |-> <<[op |-> "move", k |-> 1], [op |-> "rebuild"], [op |-> "exec", flags |-> {"P2M", "M2M", "M2L", "L2L", "L2P", "P2P"}]>>,stop |-> 2,sparts |-> <<7>>,tgroups |-> <<<<<<0>>>>, <<<<0>>>>, <<<<1>>>>, <<<<3>>>>, <<<<7>>>>>>,step |-> 3,rhs |-> <<<<>>>>,hname |-> "move1"]),
    ([pcs |-> <<[l |-> 3, g |-> 1, op |-> "M2LI"], [l |-> 4, g |-> 1, op |-> "M2LI"], [l |-> 2, op |-> "L2L", lg |-> 1, ug |-> 1], [l |-> 3, op |-> "L2L", lg |-> 1, ug |-> 1], [g |-> 1, op |-> "L2P"], [g |-> 1, op |-> "P2PI"], [g |-> 1, op |-> "P2PInner"]>>,lo |-> (0 :> (0 :> <<>>) @@ 1 :> (0 :> <<>>) @@ 2 :> <<<<>>>> @@ 3 :> (3 :> <<>>) @@ 4 :> (7 :> <<>>)),mp |-> (0 :> (0 :> <<>>) @@ 1 :> (0 :> <<>>) @@ 2 :> <<(<<1, <<3>>>> :> 1)>> @@ 3 :> (3 :> (<<1, <<1>>>> :> 1)) @@ 4 :> (7 :> (<<1, <<0>>>> :> 1))),elemDigest |-> 6075,bad |-> "",tparts |-> <<7>>,pending |-> {<<"L2P", 7>>, <<"P2PI", 7>>, <<"L2L", 2, 1, 3, 1>>, <<"L2L", 3, 3, 7, 1>>},cnt |-> [P2M |-> 1, M2M |-> 2, M2L |-> 0, L2L |-> 0, L2P |-> 0, P2P |-> 0, P2PInner |-> 0],ogpp |-> FALSE,sgroups |-> <<<<<<0>>>>, <<<<0>>>>, <<<<1>>>>, <<<<3>>>>, <<<<7>>>>>>,bs |-> 1,ops |-> <<[op |-> "move", k |-> 1], [op |-> "rebuild"], [op |-> "exec", flags |-> {"P2M", "M2M", "M2L", "L2L", "L2P", "P2P"}]>>,stop |-> 2,sparts |-> <<7>>,tgroups |-> <<<<<<0>>>>, <<<<0>>>>, <<<<1>>>>, <<<<3>>>>, <<<<7>>>>>>,step |-> 4,rhs |-> <<<<>>>>,hname |-> "move1"]),
    ([pcs |-> <<[l |-> 4, g |-> 1, op |-> "M2LI"], [l |-> 2, op |-> "L2L", lg |-> 1, ug |-> 1], [l |-> 3, op |-> "L2L", lg |-> 1, ug |-> 1], [g |-> 1, op |-> "L2P"], [g |-> 1, op |-> "P2PI"], [g |-> 1, op |-> "P2PInner"]>>,lo |-> (0 :> (0 :> <<>>) @@ 1 :> (0 :> <<>>) @@ 2 :> <<<<>>>> @@ 3 :> (3 :> <<>>) @@ 4 :> (7 :> <<>>)),mp |-> (0 :> (0 :> <<>>) @@ 1 :> (0 :> <<>>) @@ 2 :> <<(<<1, <<3>>>> :> 1)>> @@ 3 :> (3 :> (<<1, <<1>>>> :> 1)) @@ 4 :> (7 :> (<<1, <<0>>>> :> 1))),elemDigest |-> 6075,bad |-> "",tparts |-> <<7>>,pending |-> {<<"L2P", 7>>, <<"P2PI", 7>>, <<"L2L", 2, 1, 3, 1>>, <<"L2L", 3, 3, 7, 1>>},cnt |-> [P2M |-> 1, M2M |-> 2, M2L |-> 0, L2L |-> 0, L2P |-> 0, P2P |-> 0, P2PInner |-> 0],ogpp |-> FALSE,sgroups |-> <<<<<<0>>>>, <<<<0>>>>, <<<<1>>>>, <<<<3>>>>, <<<<7>>>>>>,bs |-> 1,ops |-> <<[op |-> "move", k |-> 1], [op |-> "rebuild"], [op |-> "exec", flags |-> {"P2M", "M2M", "M2L", "L2L", "L2P", "P2P"}]>>,stop |-> 2,sparts |-> <<7>>,tgroups |-> <<<<<<0>>>>, <<<<0>>>>, <<<<1>>>>, <<<<3>>>>, <<<<7>>>>>>,step |-> 5,rhs |-> <<<<>>>>,hname |-> "move1"]),
    ([pcs |-> <<[l |-> 2, op |-> "L2L", lg |-> 1, ug |-> 1], [l |-> 3, op |-> "L2L", lg |-> 1, ug |-> 1], [g |-> 1, op |-> "L2P"], [g |-> 1, op |-> "P2PI"], [g |-> 1, op |-> "P2PInner"]>>,lo |-> (0 :> (0 :> <<>>) @@ 1 :> (0 :> <<>>) @@ 2 :> <<<<>>>> @@ 3 :> (3 :> <<>>) @@ 4 :> (7 :> <<>>)),mp |-> (0 :> (0 :> <<>>) @@ 1 :> (0 :> <<>>) @@ 2 :> <<(<<1, <<3>>>> :> 1)>> @@ 3 :> (3 :> (<<1, <<1>>>> :> 1)) @@ 4 :> (7 :> (<<1, <<0>>>> :> 1))),elemDigest |-> 6075,bad |-> "",tparts |-> <<7>>,pending |-> {<<"L2P", 7>>, <<"P2PI", 7>>, <<"L2L", 2, 1, 3, 1>>, <<"L2L", 3, 3, 7, 1>>},cnt |-> [P2M |-> 1, M2M |-> 2, M2L |-> 0, L2L |-> 0, L2P |-> 0, P2P |-> 0, P2PInner |-> 0],ogpp |-> FALSE,sgroups |-> <<<<<<0>>>>, <<<<0>>>>, <<<<1>>>>, <<<<3>>>>, <<<<7>>>>>>,bs |-> 1,ops |-> <<[op |-> "move", k |-> 1], [op |-> "rebuild"], [op |-> "exec", flags |-> {"P2M", "M2M", "M2L", "L2L", "L2P", "P2P"}]>>,stop |-> 2,sparts |-> <<7>>,tgroups |-> <<<<<<0>>>>, <<<<0>>>>, <<<<1>>>>, <<<<3>>>>, <<<<7>>>>>>,step |-> 6,rhs |-> <<<<>>>>,hname |-> "move1"]),
    ([pcs |-> <<[l |-> 3, op |-> "L2L", lg |-> 1, ug |-> 1], [g |-> 1, op |-> "L2P"], [g |-> 1, op |-> "P2PI"], [g |-> 1, op |-> "P2PInner"]>>,lo |-> (0 :> (0 :> <<>>) @@ 1 :> (0 :> <<>>) @@ 2 :> <<<<>>>> @@ 3 :> (3 :> <<>>) @@ 4 :> (7 :> <<>>)),mp |-> (0 :> (0 :> <<>>) @@ 1 :> (0 :> <<>>) @@ 2 :> <<(<<1, <<3>>>> :> 1)>> @@ 3 :> (3 :> (<<1, <<1>>>> :> 1)) @@ 4 :> (7 :> (<<1, <<0>>>> :> 1))),elemDigest |-> 10402,bad |-> "",tparts |-> <<7>>,pending |-> {<<"L2P", 7>>, <<"P2PI", 7>>, <<"L2L", 3, 3, 7, 1>>},cnt |-> [P2M |-> 1, M2M |-> 2, M2L |-> 0, L2L |-> 1, L2P |-> 0, P2P |-> 0, P2PInner |-> 0],ogpp |-> FALSE,sgroups |-> <<<<<<0>>>>, <<<<0>>>>, <<<<1>>>>, <<<<3>>>>, <<<<7>>>>>>,bs |-> 1,ops |-> <<[op |-> "move", k |-> 1], [op |-> "rebuild"], [op |-> "exec", flags |-> {"P2M", "M2M", "M2L", "L2L", "L2P", "P2P"}]>>,stop |-> 2,sparts |-> <<7>>,tgroups |-> <<<<<<0>>>>, <<<<0>>>>, <<<<1>>>>, <<<<3>>>>, <<<<7>>>>>>,step |-> 7,rhs |-> <<<<>>>>,hname |-> "move1"]),
    ([pcs |-> <<[g |-> 1, op |-> "L2P"], [g |-> 1, op |-> "P2PI"], [g |-> 1, op |-> "P2PInner"]>>,lo |-> (0 :> (0 :> <<>>) @@ 1 :> (0 :> <<>>) @@ 2 :> <<<<>>>> @@ 3 :> (3 :> <<>>) @@ 4 :> (7 :> <<>>)),mp |-> (0 :> (0 :> <<>>) @@ 1 :> (0 :> <<>>) @@ 2 :> <<(<<1, <<3>>>> :> 1)>> @@ 3 :> (3 :> (<<1, <<1>>>> :> 1)) @@ 4 :> (7 :> (<<1, <<0>>>> :> 1))),elemDigest |-> 14960,bad |-> "",tparts |-> <<7>>,pending |-> {<<"L2P", 7>>, <<"P2PI", 7>>},cnt |-> [P2M |-> 1, M2M |-> 2, M2L |-> 0, L2L |-> 2, L2P |-> 0, P2P |-> 0, P2PInner |-> 0],ogpp |-> FALSE,sgroups |-> <<<<<<0>>>>, <<<<0>>>>, <<<<1>>>>, <<<<3>>>>, <<<<7>>>>>>,bs |-> 1,ops |-> <<[op |-> "move", k |-> 1], [op |-> "rebuild"], [op |-> "exec", flags |-> {"P2M", "M2M", "M2L", "L2L", "L2P", "P2P"}]>>,stop |-> 2,sparts |-> <<7>>,tgroups |-> <<<<<<0>>>>, <<<<0>>>>, <<<<1>>>>, <<<<3>>>>, <<<<7>>>>>>,step |-> 8,rhs |-> <<<<>>>>,hname |-> "move1"]),
    ([pcs |-> <<[g |-> 1, op |-> "P2PI"], [g |-> 1, op |-> "P2PInner"]>>,lo |-> (0 :> (0 :> <<>>) @@ 1 :> (0 :> <<>>) @@ 2 :> <<<<>>>> @@ 3 :> (3 :> <<>>) @@ 4 :> (7 :> <<>>)),mp |-> (0 :> (0 :> <<>>) @@ 1 :> (0 :> <<>>) @@ 2 :> <<(<<1, <<3>>>> :> 1)>> @@ 3 :> (3 :> (<<1, <<1>>>> :> 1)) @@ 4 :> (7 :> (<<1, <<0>>>> :> 1))),elemDigest |-> 20222,bad |-> "",tparts |-> <<7>>,pending |-> {<<"P2PI", 7>>},cnt |-> [P2M |-> 1, M2M |-> 2, M2L |-> 0, L2L |-> 2, L2P |-> 1, P2P |-> 0, P2PInner |-> 0],ogpp |-> FALSE,sgroups |-> <<<<<<0>>>>, <<<<0>>>>, <<<<1>>>>, <<<<3>>>>, <<<<7>>>>>>,bs |-> 1,ops |-> <<[op |-> "move", k |-> 1], [op |-> "rebuild"], [op |-> "exec", flags |-> {"P2M", "M2M", "M2L", "L2L", "L2P", "P2P"}]>>,stop |-> 2,sparts |-> <<7>>,tgroups |-> <<<<<<0>>>>, <<<<0>>>>, <<<<1>>>>, <<<<3>>>>, <<<<7>>>>>>,step |-> 9,rhs |-> <<<<>>>>,hname |-> "move1"]),
    ([pcs |-> <<[g |-> 1, op |-> "P2PInner"]>>,lo |-> (0 :> (0 :> <<>>) @@ 1 :> (0 :> <<>>) @@ 2 :> <<<<>>>> @@ 3 :> (3 :> <<>>) @@ 4 :> (7 :> <<>>)),mp |-> (0 :> (0 :> <<>>) @@ 1 :> (0 :> <<>>) @@ 2 :> <<(<<1, <<3>>>> :> 1)>> @@ 3 :> (3 :> (<<1, <<1>>>> :> 1)) @@ 4 :> (7 :> (<<1, <<0>>>> :> 1))),elemDigest |-> 20222,bad |-> "",tparts |-> <<7>>,pending |-> {<<"P2PI", 7>>},cnt |-> [P2M |-> 1, M2M |-> 2, M2L |-> 0, L2L |-> 2, L2P |-> 1, P2P |-> 0, P2PInner |-> 0],ogpp |-> FALSE,sgroups |-> <<<<<<0>>>>, <<<<0>>>>, <<<<1>>>>, <<<<3>>>>, <<<<7>>>>>>,bs |-> 1,ops |-> <<[op |-> "move", k |-> 1], [op |-> "rebuild"], [op |-> "exec", flags |-> {"P2M", "M2M", "M2L", "L2L", "L2P", "P2P"}]>>,stop |-> 2,sparts |-> <<7>>,tgroups |-> <<<<<<0>>>>, <<<<0>>>>, <<<<1>>>>, <<<<3>>>>, <<<<7>>>>>>,step |-> 10,rhs |-> <<<<>>>>,hname |-> "move1"]),
    ([pcs |-> <<>>,lo |-> (0 :> (0 :> <<>>) @@ 1 :> (0 :> <<>>) @@ 2 :> <<<<>>>> @@ 3 :> (3 :> <<>>) @@ 4 :> (7 :> <<>>)),mp |-> (0 :> (0 :> <<>>) @@ 1 :> (0 :> <<>>) @@ 2 :> <<(<<1, <<3>>>> :> 1)>> @@ 3 :> (3 :> (<<1, <<1>>>> :> 1)) @@ 4 :> (7 :> (<<1, <<0>>>> :> 1))),elemDigest |-> 27502,bad |-> "",tparts |-> <<7>>,pending |-> {},cnt |-> [P2M |-> 1, M2M |-> 2, M2L |-> 0, L2L |-> 2, L2P |-> 1, P2P |-> 0, P2PInner |-> 0],ogpp |-> FALSE,sgroups |-> <<<<<<0>>>>, <<<<0>>>>, <<<<1>>>>, <<<<3>>>>, <<<<7>>>>>>,bs |-> 1,ops |-> <<[op |-> "move", k |-> 1], [op |-> "rebuild"], [op |-> "exec", flags |-> {"P2M", "M2M", "M2L", "L2L", "L2P", "P2P"}]>>,stop |-> 2,sparts |-> <<7>>,tgroups |-> <<<<<<0>>>>, <<<<0>>>>, <<<<1>>>>, <<<<3>>>>, <<<<7>>>>>>,step |-> 11,rhs |-> <<<<>>>>,hname |-> "move1"]),
    ([pcs |-> <<>>,lo |-> (0 :> (0 :> <<>>) @@ 1 :> (0 :> <<>>) @@ 2 :> <<<<>>>> @@ 3 :> (3 :> <<>>) @@ 4 :> (7 :> <<>>)),mp |-> (0 :> (0 :> <<>>) @@ 1 :> (0 :> <<>>) @@ 2 :> <<(<<1, <<3>>>> :> 1)>> @@ 3 :> (3 :> (<<1, <<1>>>> :> 1)) @@ 4 :> (7 :> (<<1, <<0>>>> :> 1))),elemDigest |-> 27502,bad |-> "",tparts |-> <<0>>,pending |-> {},cnt |-> [P2M |-> 1, M2M |-> 2, M2L |-> 0, L2L |-> 2, L2P |-> 1, P2P |-> 0, P2PInner |-> 0],ogpp |-> FALSE,sgroups |-> <<<<<<0>>>>, <<<<0>>>>, <<<<1>>>>, <<<<3>>>>, <<<<7>>>>>>,bs |-> 1,ops |-> <<[op |-> "rebuild"], [op |-> "exec", flags |-> {"P2M", "M2M", "M2L", "L2L", "L2P", "P2P"}]>>,stop |-> 2,sparts |-> <<0>>,tgroups |-> <<<<<<0>>>>, <<<<0>>>>, <<<<1>>>>, <<<<3>>>>, <<<<7>>>>>>,step |-> 11,rhs |-> <<<<>>>>,hname |-> "move1"])
    >>
----


=============================================================================

---- CONFIG Fmm_TTrace_1790475757 ----
CONSTANTS
    Dim = 1
    Height = 5
    Periodic = FALSE
    Mode = "single"
    Pool = { 0 , 1 , 2 , 5 , 6 , 7 }
    MaxPerLeaf = 1
    MaxParts = 6
    BlockSizes = { 1 , 2 , 3 }
    GroupModes = { FALSE , TRUE }
    StopLevels = { 2 }
    Histories = { "move1" , "move2" }
    EmitJson = TRUE
    Shard = 0
    NbShards = 1

INVARIANT
    _inv

CHECK_DEADLOCK
    \* CHECK_DEADLOCK off because of PROPERTY or INVARIANT above.
    FALSE

INIT
    _init

NEXT
    _next

CONSTANT
    _TETrace <- _trace

ALIAS
    _expression
=============================================================================
\* Generated on Sun Sep 27 02:22:44 UTC 2026