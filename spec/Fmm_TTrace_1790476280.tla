---- MODULE Fmm_TTrace_1790476280 ----
EXTENDS Sequences, TLCExt, Toolbox, Fmm, Naturals, TLC

_expression ==
    LET Fmm_TEExpression == INSTANCE Fmm_TEExpression
    IN Fmm_TEExpression!expression
----

_trace ==
    LET Fmm_TETrace == INSTANCE Fmm_TETrace
    IN Fmm_TETrace!trace
----

_inv ==
    ~(
        TLCGet("level") = Len(_TETrace)
        /\
        pcs = (<<>>)
        /\
        lo = ((0 :> (0 :> <<>>) @@ 1 :> (1 :> <<>> @@ 5 :> <<>>) @@ 2 :> (17 :> <<>> @@ 85 :> (<<1, <<0, -6, 0, 0>>>> :> 1))))
        /\
        mp = ((0 :> (0 :> <<>>) @@ 1 :> (1 :> <<>> @@ 5 :> <<>>) @@ 2 :> (17 :> (<<1, <<0, 0, 0, 0>>>> :> 1) @@ 85 :> (<<2, <<0, 0, 0, 0>>>> :> 1))))
        /\
        elemDigest = (49244)
        /\
        bad = ("")
        /\
        tparts = (<<17, 85>>)
        /\
        pending = ({})
        /\
        cnt = ([P2M |-> 2, M2M |-> 0, M2L |-> 1, L2L |-> 0, L2P |-> 2, P2P |-> 0, P2PInner |-> 0])
        /\
        ogpp = (FALSE)
        /\
        sgroups = (<<<<<<0>>>>, <<<<1, 5>>>>, <<<<17, 85>>>>>>)
        /\
        bs = (2)
        /\
        ops = (<<>>)
        /\
        stop = (2)
        /\
        sparts = (<<17, 85>>)
        /\
        tgroups = (<<<<<<0>>>>, <<<<1, 5>>>>, <<<<17, 85>>>>>>)
        /\
        step = (5)
        /\
        init0 = ([sparts |-> <<17, 85>>, tparts |-> <<17, 85>>, sgroups |-> <<<<<<0>>>>, <<<<1, 5>>>>, <<<<17, 85>>>>>>, tgroups |-> <<<<<<0>>>>, <<<<1, 5>>>>, <<<<17, 85>>>>>>])
        /\
        rhs = (<<<<>>, (<<1, <<0, -6, 0, 0>>>> :> 1)>>)
        /\
        hname = ("full")
    )
----

_init ==
    /\ sparts = _TETrace[1].sparts
    /\ init0 = _TETrace[1].init0
    /\ ogpp = _TETrace[1].ogpp
    /\ bs = _TETrace[1].bs
    /\ tparts = _TETrace[1].tparts
    /\ rhs = _TETrace[1].rhs
    /\ sgroups = _TETrace[1].sgroups
    /\ step = _TETrace[1].step
    /\ tgroups = _TETrace[1].tgroups
    /\ pending = _TETrace[1].pending
    /\ elemDigest = _TETrace[1].elemDigest
    /\ pcs = _TETrace[1].pcs
    /\ lo = _TETrace[1].lo
    /\ mp = _TETrace[1].mp
    /\ cnt = _TETrace[1].cnt
    /\ stop = _TETrace[1].stop
    /\ ops = _TETrace[1].ops
    /\ hname = _TETrace[1].hname
    /\ bad = _TETrace[1].bad
----

_next ==
    /\ \E i,j \in DOMAIN _TETrace:
        /\ \/ /\ j = i + 1
              /\ i = TLCGet("level")
        /\ sparts  = _TETrace[i].sparts
        /\ sparts' = _TETrace[j].sparts
        /\ init0  = _TETrace[i].init0
        /\ init0' = _TETrace[j].init0
        /\ ogpp  = _TETrace[i].ogpp
        /\ ogpp' = _TETrace[j].ogpp
        /\ bs  = _TETrace[i].bs
        /\ bs' = _TETrace[j].bs
        /\ tparts  = _TETrace[i].tparts
        /\ tparts' = _TETrace[j].tparts
        /\ rhs  = _TETrace[i].rhs
        /\ rhs' = _TETrace[j].rhs
        /\ sgroups  = _TETrace[i].sgroups
        /\ sgroups' = _TETrace[j].sgroups
        /\ step  = _TETrace[i].step
        /\ step' = _TETrace[j].step
        /\ tgroups  = _TETrace[i].tgroups
        /\ tgroups' = _TETrace[j].tgroups
        /\ pending  = _TETrace[i].pending
        /\ pending' = _TETrace[j].pending
        /\ elemDigest  = _TETrace[i].elemDigest
        /\ elemDigest' = _TETrace[j].elemDigest
        /\ pcs  = _TETrace[i].pcs
        /\ pcs' = _TETrace[j].pcs
        /\ lo  = _TETrace[i].lo
        /\ lo' = _TETrace[j].lo
        /\ mp  = _TETrace[i].mp
        /\ mp' = _TETrace[j].mp
        /\ cnt  = _TETrace[i].cnt
        /\ cnt' = _TETrace[j].cnt
        /\ stop  = _TETrace[i].stop
        /\ stop' = _TETrace[j].stop
        /\ ops  = _TETrace[i].ops
        /\ ops' = _TETrace[j].ops
        /\ hname  = _TETrace[i].hname
        /\ hname' = _TETrace[j].hname
        /\ bad  = _TETrace[i].bad
        /\ bad' = _TETrace[j].bad

\* Uncomment the ASSUME below to write the states of the error trace
\* to the given file in Json format. Note that you can pass any tuple
\* to `JsonSerialize`. For example, a sub-sequence of _TETrace.
    \* ASSUME
    \*     LET J == INSTANCE Json
    \*         IN J!JsonSerialize("Fmm_TTrace_1790476280.json", _TETrace)

=============================================================================

 Note that you can extract this module `Fmm_TEExpression`
  to a dedicated file to reuse `expression` (the module in the 
  dedicated `Fmm_TEExpression.tla` file takes precedence 
  over the module `Fmm_TEExpression` below).

---- MODULE Fmm_TEExpression ----
EXTENDS Sequences, TLCExt, Toolbox, Fmm, Naturals, TLC

expression == 
    [
        \* To hide variables of the `Fmm` spec from the error trace,
        \* remove the variables below.  The trace will be written in the order
        \* of the fields of this record.
        sparts |-> sparts
        ,init0 |-> init0
        ,ogpp |-> ogpp
        ,bs |-> bs
        ,tparts |-> tparts
        ,rhs |-> rhs
        ,sgroups |-> sgroups
        ,step |-> step
        ,tgroups |-> tgroups
        ,pending |-> pending
        ,elemDigest |-> elemDigest
        ,pcs |-> pcs
        ,lo |-> lo
        ,mp |-> mp
        ,cnt |-> cnt
        ,stop |-> stop
        ,ops |-> ops
        ,hname |-> hname
        ,bad |-> bad
        
        \* Put additional constant-, state-, and action-level expressions here:
        \* ,_stateNumber |-> _TEPosition
        \* ,_spartsUnchanged |-> sparts = sparts'
        
        \* Format the `sparts` variable as Json value.
        \* ,_spartsJson |->
        \*     LET J == INSTANCE Json
        \*     IN J!ToJson(sparts)
        
        \* Lastly, you may build expressions over arbitrary sets of states by
        \* leveraging the _TETrace operator.  For example, this is how to
        \* count the number of times a spec variable changed up to the current
        \* state in the trace.
        \* ,_spartsModCount |->
        \*     LET F[s \in DOMAIN _TETrace] ==
        \*         IF s = 1 THEN 0
        \*         ELSE IF _TETrace[s].sparts # _TETrace[s-1].sparts
        \*             THEN 1 + F[s-1] ELSE F[s-1]
        \*     IN F[_TEPosition - 1]
    ]

=============================================================================



Parsing and semantic processing can take forever if the trace below is long.
 In this case, it is advised to uncomment the module below to deserialize the
 trace from a generated binary file.

\*
\*---- MODULE Fmm_TETrace ----
\*EXTENDS IOUtils, Fmm, TLC
\*
\*trace == IODeserialize("Fmm_TTrace_1790476280.bin", TRUE)
\*
\*=============================================================================
\*

---- MODULE Fmm_TETrace ----
EXTENDS Fmm, TLC

trace == 
    <<
    ([pcs |-> <<>>,lo |-> (0 :> (0 :> <<>>) @@ 1 :> (1 :> <<>> @@ 5 :> <<>>) @@ 2 :> (17 :> <<>> @@ 85 :> <<>>)),mp |-> (0 :> (0 :> <<>>) @@ 1 :> (1 :> <<>> @@ 5 :> <<>>) @@ 2 :> (17 :> <<>> @@ 85 :> <<>>)),elemDigest |-> 0,bad |-> "",tparts |-> <<17, 85>>,pending |-> {},cnt |-> [P2M |-> 0, M2M |-> 0, M2L |-> 0, L2L |-> 0, L2P |-> 0, P2P |-> 0, P2PInner |-> 0],ogpp |-> FALSE,sgroups |-> <<<<<<0>>>>, <<<<1, 5>>>>, <<<<17, 85>>>>>>,bs |-> 2,ops |-> <<[op |-> "exec", flags |-> {"P2M", "M2M", "M2L", "L2L", "L2P", "P2P"}]>>,stop |-> 2,sparts |-> <<17, 85>>,tgroups |-> <<<<<<0>>>>, <<<<1, 5>>>>, <<<<17, 85>>>>>>,step |-> 0,init0 |-> [sparts |-> <<17, 85>>, tparts |-> <<17, 85>>, sgroups |-> <<<<<<0>>>>, <<<<1, 5>>>>, <<<<17, 85>>>>>>, tgroups |-> <<<<<<0>>>>, <<<<1, 5>>>>, <<<<17, 85>>>>>>],rhs |-> <<<<>>, <<>>>>,hname |-> "full"]),
    ([pcs |-> <<[g |-> 1, op |-> "P2M"], [l |-> 2, g |-> 1, op |-> "M2LI"], [g |-> 1, op |-> "L2P"], [g |-> 1, op |-> "P2PI"], [g |-> 1, op |-> "P2PInner"]>>,lo |-> (0 :> (0 :> <<>>) @@ 1 :> (1 :> <<>> @@ 5 :> <<>>) @@ 2 :> (17 :> <<>> @@ 85 :> <<>>)),mp |-> (0 :> (0 :> <<>>) @@ 1 :> (1 :> <<>> @@ 5 :> <<>>) @@ 2 :> (17 :> <<>> @@ 85 :> <<>>)),elemDigest |-> 0,bad |-> "",tparts |-> <<17, 85>>,pending |-> {<<"P2M", 17>>, <<"P2M", 85>>, <<"L2P", 17>>, <<"L2P", 85>>, <<"P2PI", 17>>, <<"P2PI", 85>>, <<"M2L", 2, 85, 17, 1053>>},cnt |-> [P2M |-> 0, M2M |-> 0, M2L |-> 0, L2L |-> 0, L2P |-> 0, P2P |-> 0, P2PInner |-> 0],ogpp |-> FALSE,sgroups |-> <<<<<<0>>>>, <<<<1, 5>>>>, <<<<17, 85>>>>>>,bs |-> 2,ops |-> <<>>,stop |-> 2,sparts |-> <<17, 85>>,tgroups |-> <<<<<<0>>>>, <<<<1, 5>>>>, <<<<17, 85>>>>>>,step |-> 0,init0 |-> [sparts |-> <<17, 85>>, tparts |-> <<17, 85>>, sgroups |-> <<<<<<0>>>>, <<<<1, 5>>>>, <<<<17, 85>>>>>>, tgroups |-> <<<<<<0>>>>, <<<<1, 5>>>>, <<<<17, 85>>>>>>],rhs |-> <<<<>>, <<>>>>,hname |-> "full"]),
    ([pcs |-> <<[l |-> 2, g |-> 1, op |-> "M2LI"], [g |-> 1, op |-> "L2P"], [g |-> 1, op |-> "P2PI"], [g |-> 1, op |-> "P2PInner"]>>,lo |-> (0 :> (0 :> <<>>) @@ 1 :> (1 :> <<>> @@ 5 :> <<>>) @@ 2 :> (17 :> <<>> @@ 85 :> <<>>)),mp |-> (0 :> (0 :> <<>>) @@ 1 :> (1 :> <<>> @@ 5 :> <<>>) @@ 2 :> (17 :> (<<1, <<0, 0, 0, 0>>>> :> 1) @@ 85 :> (<<2, <<0, 0, 0, 0>>>> :> 1))),elemDigest |-> 5180,bad |-> "",tparts |-> <<17, 85>>,pending |-> {<<"L2P", 17>>, <<"L2P", 85>>, <<"P2PI", 17>>, <<"P2PI", 85>>, <<"M2L", 2, 85, 17, 1053>>},cnt |-> [P2M |-> 2, M2M |-> 0, M2L |-> 0, L2L |-> 0, L2P |-> 0, P2P |-> 0, P2PInner |-> 0],ogpp |-> FALSE,sgroups |-> <<<<<<0>>>>, <<<<1, 5>>>>, <<<<17, 85>>>>>>,bs |-> 2,ops |-> <<>>,stop |-> 2,sparts |-> <<17, 85>>,tgroups |-> <<<<<<0>>>>, <<<<1, 5>>>>, <<<<17, 85>>>>>>,step |-> 1,init0 |-> [sparts |-> <<17, 85>>, tparts |-> <<17, 85>>, sgroups |-> <<<<<<0>>>>, <<<<1, 5>>>>, <<<<17, 85>>>>>>, tgroups |-> <<<<<<0>>>>, <<<<1, 5>>>>, <<<<17, 85>>>>>>],rhs |-> <<<<>>, <<>>>>,hname |-> "full"]),
    ([pcs |-> <<[g |-> 1, op |-> "L2P"], [g |-> 1, op |-> "P2PI"], [g |-> 1, op |-> "P2PInner"]>>,lo |-> (0 :> (0 :> <<>>) @@ 1 :> (1 :> <<>> @@ 5 :> <<>>) @@ 2 :> (17 :> <<>> @@ 85 :> (<<1, <<0, -6, 0, 0>>>> :> 1))),mp |-> (0 :> (0 :> <<>>) @@ 1 :> (1 :> <<>> @@ 5 :> <<>>) @@ 2 :> (17 :> (<<1, <<0, 0, 0, 0>>>> :> 1) @@ 85 :> (<<2, <<0, 0, 0, 0>>>> :> 1))),elemDigest |-> 18704,bad |-> "",tparts |-> <<17, 85>>,pending |-> {<<"L2P", 17>>, <<"L2P", 85>>, <<"P2PI", 17>>, <<"P2PI", 85>>},cnt |-> [P2M |-> 2, M2M |-> 0, M2L |-> 1, L2L |-> 0, L2P |-> 0, P2P |-> 0, P2PInner |-> 0],ogpp |-> FALSE,sgroups |-> <<<<<<0>>>>, <<<<1, 5>>>>, <<<<17, 85>>>>>>,bs |-> 2,ops |-> <<>>,stop |-> 2,sparts |-> <<17, 85>>,tgroups |-> <<<<<<0>>>>, <<<<1, 5>>>>, <<<<17, 85>>>>>>,step |-> 2,init0 |-> [sparts |-> <<17, 85>>, tparts |-> <<17, 85>>, sgroups |-> <<<<<<0>>>>, <<<<1, 5>>>>, <<<<17, 85>>>>>>, tgroups |-> <<<<<<0>>>>, <<<<1, 5>>>>, <<<<17, 85>>>>>>],rhs |-> <<<<>>, <<>>>>,hname |-> "full"]),
    ([pcs |-> <<[g |-> 1, op |-> "P2PI"], [g |-> 1, op |-> "P2PInner"]>>,lo |-> (0 :> (0 :> <<>>) @@ 1 :> (1 :> <<>> @@ 5 :> <<>>) @@ 2 :> (17 :> <<>> @@ 85 :> (<<1, <<0, -6, 0, 0>>>> :> 1))),mp |-> (0 :> (0 :> <<>>) @@ 1 :> (1 :> <<>> @@ 5 :> <<>>) @@ 2 :> (17 :> (<<1, <<0, 0, 0, 0>>>> :> 1) @@ 85 :> (<<2, <<0, 0, 0, 0>>>> :> 1))),elemDigest |-> 31956,bad |-> "",tparts |-> <<17, 85>>,pending |-> {<<"P2PI", 17>>, <<"P2PI", 85>>},cnt |-> [P2M |-> 2, M2M |-> 0, M2L |-> 1, L2L |-> 0, L2P |-> 2, P2P |-> 0, P2PInner |-> 0],ogpp |-> FALSE,sgroups |-> <<<<<<0>>>>, <<<<1, 5>>>>, <<<<17, 85>>>>>>,bs |-> 2,ops |-> <<>>,stop |-> 2,sparts |-> <<17, 85>>,tgroups |-> <<<<<<0>>>>, <<<<1, 5>>>>, <<<<17, 85>>>>>>,step |-> 3,init0 |-> [sparts |-> <<17, 85>>, tparts |-> <<17, 85>>, sgroups |-> <<<<<<0>>>>, <<<<1, 5>>>>, <<<<17, 85>>>>>>, tgroups |-> <<<<<<0>>>>, <<<<1, 5>>>>, <<<<17, 85>>>>>>],rhs |-> <<<<>>, (<<1, <<0, -6, 0, 0>>>> :> 1)>>,hname |-> "full"]),
    ([pcs |-> <<[g |-> 1, op |-> "P2PInner"]>>,lo |-> (0 :> (0 :> <<>>) @@ 1 :> (1 :> <<>> @@ 5 :> <<>>) @@ 2 :> (17 :> <<>> @@ 85 :> (<<1, <<0, -6, 0, 0>>>> :> 1))),mp |-> (0 :> (0 :> <<>>) @@ 1 :> (1 :> <<>> @@ 5 :> <<>>) @@ 2 :> (17 :> (<<1, <<0, 0, 0, 0>>>> :> 1) @@ 85 :> (<<2, <<0, 0, 0, 0>>>> :> 1))),elemDigest |-> 31956,bad |-> "",tparts |-> <<17, 85>>,pending |-> {<<"P2PI", 17>>, <<"P2PI", 85>>},cnt |-> [P2M |-> 2, M2M |-> 0, M2L |-> 1, L2L |-> 0, L2P |-> 2, P2P |-> 0, P2PInner |-> 0],ogpp |-> FALSE,sgroups |-> <<<<<<0>>>>, <<<<1, 5>>>>, <<<<17, 85>>>>>>,bs |-> 2,ops |-> <<>>,stop |-> 2,sparts |-> <<17, 85>>,tgroups |-> <<<<<<0>>>>, <<<<1, 5>>>>, <<<<17, 85>>>>>>,step |-> 4,init0 |-> [sparts |-> <<17, 85>>, tparts |-> <<17, 85>>, sgroups |-> <<<<<<0>>>>, <<<<1, 5>>>>, <<<<17, 85>>>>>>, tgroups |-> <<<<<<0>>>>, <<<<1, 5>>>>, <<<<17, 85>>>>>>],rhs |-> <<<<>>, (<<1, <<0, -6, 0, 0>>>> :> 1)>>,hname |-> "full"]),
    ([pcs |-> <<>>,lo |-> (0 :> (0 :> <<>>) @@ 1 :> (1 :> <<>> @@ 5 :> <<>>) @@ 2 :> (17 :> <<>> @@ 85 :> (<<1, <<0, -6, 0, 0>>>> :> 1))),mp |-> (0 :> (0 :> <<>>) @@ 1 :> (1 :> <<>> @@ 5 :> <<>>) @@ 2 :> (17 :> (<<1, <<0, 0, 0, 0>>>> :> 1) @@ 85 :> (<<2, <<0, 0, 0, 0>>>> :> 1))),elemDigest |-> 49244,bad |-> "",tparts |-> <<17, 85>>,pending |-> {},cnt |-> [P2M |-> 2, M2M |-> 0, M2L |-> 1, L2L |-> 0, L2P |-> 2, P2P |-> 0, P2PInner |-> 0],ogpp |-> FALSE,sgroups |-> <<<<<<0>>>>, <<<<1, 5>>>>, <<<<17, 85>>>>>>,bs |-> 2,ops |-> <<>>,stop |-> 2,sparts |-> <<17, 85>>,tgroups |-> <<<<<<0>>>>, <<<<1, 5>>>>, <<<<17, 85>>>>>>,step |-> 5,init0 |-> [sparts |-> <<17, 85>>, tparts |-> <<17, 85>>, sgroups |-> <<<<<<0>>>>, <<<<1, 5>>>>, <<<<17, 85>>>>>>, tgroups |-> <<<<<<0>>>>, <<<<1, 5>>>>, <<<<17, 85>>>>>>],rhs |-> <<<<>>, (<<1, <<0, -6, 0, 0>>>> :> 1)>>,hname |-> "full"])
    >>
----


=============================================================================

---- CONFIG Fmm_TTrace_1790476280 ----
CONSTANTS
    Dim = 4
    Height = 3
    Periodic = FALSE
    Mode = "single"
    Pool = { 0 , 15 , 17 , 85 }
    MaxPerLeaf = 1
    MaxParts = 4
    BlockSizes = { 1 , 2 , 3 , 4 , 5 , 7 , 11 , 20 }
    GroupModes = { FALSE , TRUE }
    StopLevels = { 2 }
    Histories = { "full" }
    EmitJson = TRUE
    Shard = 0
    NbShards = 1

INVARIANT
    _inv

CHECK_DEADLOCK
    \* CHECK_DEADLOCK off because of PROPERTY or INVARIANT above.
    FALSE

INIT
    _init

NEXT
    _next

CONSTANT
    _TETrace <- _trace

ALIAS
    _expression
=============================================================================
\* Generated on Sun Sep 27 02:31:38 UTC 2026