------------------------------ MODULE FmmTrace ------------------------------
(***************************************************************************)
(* Trace validation (code -> spec): executions RECORDED FROM THE REAL CODE *)
(* (harness/record_fmm.cpp: the kernel callbacks of sequential and task    *)
(* executors on random trees far larger than TLC can enumerate) are        *)
(* checked against the dataflow layer of Fmm.tla.                          *)
(*                                                                         *)
(* Each line of the trace is one kernel call with ALL its arguments:       *)
(*   {"e":"Init","stop":s,"mode":0|1,"sparts":[leaf...],"tparts":[...]}    *)
(*   {"e":"P2M","t":leaf} {"e":"L2P","t":leaf} {"e":"P2PI","t":leaf}       *)
(*   {"e":"M2M","l":level,"t":parent,"s":[children],"c":[codes]}           *)
(*   {"e":"L2L","l":level,"t":parent,"s":[children],"c":[codes]}           *)
(*   {"e":"M2L","l":level,"t":target,"s":[sources],"c":[codes]}            *)
(*   {"e":"P2P","t":target leaf,"s":[source leaf],"c":[code]}              *)
(*   {"e":"End"}                                                           *)
(*   {"e":"Tree","which":0|1,"groups":[level][group][cell],"leaves":[..]}  *)
(*   {"e":"Find","which":0|1,"leaf":0|1,"l":level,"m":index,"g":..,"p":..} *)
(*   {"e":"Rebuild","sparts":[...],"tparts":[...]}                         *)
(* A call is accepted iff it is an enabled batch of the specification WITH *)
(* EXACTLY THOSE ARGUMENTS: every elementary interaction it names exists   *)
(* for this occupancy (right level, true parent/child and octant code,     *)
(* true interaction-list / neighbour offset code), is still pending        *)
(* (nothing twice), and the dataflow guard holds (no expansion is read     *)
(* before it is complete).  "End" is accepted iff nothing is pending       *)
(* (nothing lost).  Several executions are concatenated in one file.       *)
(* Acceptance = the whole file is consumed (POSTCONDITION Accepted).       *)
(***************************************************************************)
EXTENDS Fmm, IOUtils
Tr == ndJsonDeserialize(IOEnv.TRACE)

VARIABLE i       \* next line of the trace
tvars == <<vars, i>>

Ev == Tr[i]
SeqOfList(s) == [k \in 1..Len(s) |-> s[k]]
BatchOf(e) ==
  CASE e.e = "P2M"  -> { <<"P2M", e.t>> }
    [] e.e = "L2P"  -> { <<"L2P", e.t>> }
    [] e.e = "P2PI" -> { <<"P2PI", e.t>> }
    [] e.e = "P2P"  -> { <<"P2P", e.t, e.s[1], e.c[1]>> }
    [] e.e \in {"M2M", "M2L", "L2L"} -> { <<e.e, e.l, e.t, e.s[k], e.c[k]>> : k \in 1..Len(e.s) }
    [] OTHER -> {}

UnusedBut(keepGroups) == /\ UNCHANGED <<mp, lo, rhs, pcs, ops, cnt, elemDigest, hname, above, init0>>
                         /\ (keepGroups => UNCHANGED <<bs, ogpp, sgroups, tgroups>>)
Unused == UnusedBut(TRUE)

TraceInit == /\ i = 1 /\ sparts = <<>> /\ tparts = <<>> /\ stop = 0 /\ pending = {} /\ bad = "" /\ step = 0
             /\ bs = 0 /\ ogpp = FALSE /\ sgroups = <<>> /\ tgroups = <<>> /\ mp = <<>> /\ lo = <<>> /\ rhs = <<>>
             /\ pcs = <<>> /\ ops = <<>> /\ cnt = ZeroCnt /\ elemDigest = 0 /\ hname = "trace" /\ above = 0 - 1 /\ init0 = <<>>

\* a new session starts: the pending set is everything the specification requires for this occupancy
TInit == /\ i <= Len(Tr) /\ Ev.e = "Init" /\ pending = {}
         /\ sparts' = SeqOfList(Ev.sparts) /\ tparts' = SeqOfList(Ev.tparts) /\ stop' = Ev.stop
         /\ bs' = Ev.bs /\ ogpp' = Ev.ogpp /\ sgroups' = <<>> /\ tgroups' = <<>>
         /\ pending' = LET s2 == SeqOfList(Ev.sparts) t2 == SeqOfList(Ev.tparts) IN ElementaryFor(s2, t2, Ev.stop)
         /\ step' = 0 /\ bad' = "" /\ i' = i + 1 /\ UnusedBut(FALSE)
\* the group structure observed on the real tree (after construction, after every rebuild): it must be the tree the
\* specification builds for the current occupancy, satisfy the structural invariants of C07 as stated on the observed value,
\* and the particle groups must mirror the leaf cell groups cell by cell
JGroups(j) == [l \in 1..Len(j) |-> [g \in 1..Len(j[l]) |-> [c \in 1..Len(j[l][g]) |-> j[l][g][c]]]]
TTree == /\ i <= Len(Tr) /\ Ev.e = "Tree"
         /\ LET G == JGroups(Ev.groups)
                occ == IF Ev.which = 0 THEN SeqToSet(sparts) ELSE SeqToSet(tparts)
            IN /\ Len(G) = Height
               /\ TreeInvariant(G, occ, bs, ogpp)
               /\ G = BuildTree(occ, bs, ogpp)
               /\ JGroups(<<Ev.leaves>>)[1] = G[Height]
               /\ IF Ev.which = 0 THEN sgroups' = G /\ tgroups' = (IF Tsm THEN tgroups ELSE G)
                                   ELSE tgroups' = G /\ sgroups' = sgroups
         /\ i' = i + 1 /\ UNCHANGED <<sparts, tparts, stop, pending, bad, step, bs, ogpp>> /\ UnusedBut(FALSE)
\* a look-up made on the real tree answers what the transcribed look-up answers on the recorded structure: the group and the
\* position of the cell / leaf if it exists, nothing otherwise (C16)
TFind == /\ i <= Len(Tr) /\ Ev.e = "Find"
         /\ LET G == IF Ev.which = 0 THEN sgroups ELSE tgroups IN
            /\ G # <<>>
            /\ Find(G, Ev.l, Ev.m) = <<Ev.g, Ev.p>>
            /\ (Ev.m \in CellsAt(G, Ev.l) <=> Ev.g > 0)
         /\ i' = i + 1 /\ UNCHANGED <<sparts, tparts, stop, pending, bad, step>> /\ Unused
\* particles were edited in place and rebuild() was called: allowed only between passes (nothing pending); a new pass over
\* the new occupancy starts (the group structure is stale until the next Tree event)
TRebuild == /\ i <= Len(Tr) /\ Ev.e = "Rebuild" /\ pending = {}
            /\ sparts' = SeqOfList(Ev.sparts) /\ tparts' = SeqOfList(Ev.tparts)
            /\ pending' = LET s2 == SeqOfList(Ev.sparts) t2 == SeqOfList(Ev.tparts) IN ElementaryFor(s2, t2, stop)
            /\ sgroups' = <<>> /\ tgroups' = <<>>
            /\ step' = 0 /\ i' = i + 1 /\ UNCHANGED <<stop, bad, bs, ogpp>> /\ UnusedBut(FALSE)
TCall == /\ i <= Len(Tr) /\ Ev.e \notin {"Init", "End", "Tree", "Find", "Rebuild"}
         /\ LET B == BatchOf(Ev) IN
            /\ B # {}                                              \* no operator is called with an empty list
            /\ (Ev.e \in {"M2M", "M2L", "L2L"} => Cardinality(B) = Len(Ev.s))   \* no source handed twice in one call
            /\ B \subseteq pending                                 \* exists for this occupancy with these exact arguments, not yet performed
            /\ \A e \in B : GuardFast(e, pending)                      \* dataflow: inputs complete
            /\ pending' = pending \ B
         /\ step' = step + 1 /\ i' = i + 1 /\ UNCHANGED <<sparts, tparts, stop, bad>> /\ Unused
TEnd == /\ i <= Len(Tr) /\ Ev.e = "End" /\ pending = {}                \* nothing lost
        /\ i' = i + 1 /\ UNCHANGED <<sparts, tparts, stop, pending, bad, step>> /\ Unused
TraceNext == TInit \/ TTree \/ TFind \/ TRebuild \/ TCall \/ TEnd
TraceSpec == TraceInit /\ [][TraceNext]_tvars
Accepted == TLCGet("stats").diameter - 1 = Len(Tr)
\* for the report of a rejection: how far the trace was consumed
Progress == PrintT(<<"consumed", TLCGet("stats").diameter - 1, "of", Len(Tr)>>)
=============================================================================
