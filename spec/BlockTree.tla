----------------------------- MODULE BlockTree -----------------------------
(***************************************************************************)
(* L2 - the block (group) tree of tbfmm as pure operators.                 *)
(*                                                                         *)
(* A tree is determined by the leaf index of every particle, the block     *)
(* size and the parent-grouping mode.  The operators below are transcribed *)
(* from the constructor of TbfTree (src/core/tbftree.hpp:52-135, repeated  *)
(* in rebuild(), :328-419) and TbfParticleSorter::splitInGroups, at the    *)
(* grain of the code: sort, cut the leaves, then build each upper level    *)
(* from the groups of the level below.                                     *)
(*                                                                         *)
(* groups[l+1] (TLA+ sequences are 1-based, levels 0-based) is the         *)
(* sequence of groups of level l; a group is the strictly increasing       *)
(* sequence of its cell indices.  Its recorded header is (first, last,     *)
(* count) of that sequence.                                                *)
(***************************************************************************)
EXTENDS Grid, Sequences

Par(m)       == m \div Pow2(Dim)      \* parent index (all shipped orderings: index >> Dim)
ChildCode(m) == m % Pow2(Dim)         \* child-position code (= octant for Morton, GridCheck!ChildCodeIsOctant)
First(g) == g[1]
Last(g)  == g[Len(g)]
SeqToSet(s) == { s[i] : i \in 1..Len(s) }

\* the strictly increasing sequence of the elements of a finite set of integers
SortedSeq(S) ==
  LET RECURSIVE F(_)
      F(T) == IF T = {} THEN <<>> ELSE LET m == CHOOSE x \in T : \A y \in T : x <= y IN <<m>> \o F(T \ {m})
  IN F(S)
\* cut a sequence every n elements (TbfParticleSorter::splitInGroups)
Chunk(s, n) ==
  LET RECURSIVE F(_)
      F(t) == IF Len(t) = 0 THEN <<>> ELSE IF Len(t) <= n THEN <<t>> ELSE <<SubSeq(t, 1, n)>> \o F(SubSeq(t, n+1, Len(t)))
  IN F(s)
Flatten(gs) ==
  LET RECURSIVE F(_)
      F(t) == IF Len(t) = 0 THEN <<>> ELSE t[1] \o F(Tail(t))
  IN F(gs)

(* Leaf level: the occupied leaves, sorted, cut every bs.                  *)
LeafGroups(occ, bs) == Chunk(SortedSeq(occ), bs)

(* Default mode (tbftree.hpp:110-134): walk all lower cells in order,      *)
(* append a parent when it differs from the previous one, flush a group    *)
(* whenever it holds bs cells.                                             *)
PlainLevel(lower, bs) ==
  LET RECURSIVE W(_, _, _, _)     \* remaining cells, previous parent, current group, finished groups
      W(cells, prev, cur, acc) ==
        IF Len(cells) = 0 THEN (IF Len(cur) > 0 THEN Append(acc, cur) ELSE acc)
        ELSE LET p == Par(cells[1]) IN
             IF p = prev THEN W(Tail(cells), prev, cur, acc)
             ELSE LET cur2 == Append(cur, p) IN
                  IF Len(cur2) = bs THEN W(Tail(cells), p, <<>>, Append(acc, cur2))
                  ELSE W(Tail(cells), p, cur2, acc)
  IN W(Flatten(lower), 0 - 1, <<>>, <<>>)

(* One-group-per-parent mode (tbftree.hpp:85-109): one upper group per     *)
(* lower group, holding the parents of its cells that are not already      *)
(* covered by the previous upper group (compared with its ending index).   *)
OgppLevel(lower) ==
  LET RECURSIVE W(_, _)
      W(rest, acc) ==
        IF Len(rest) = 0 THEN acc
        ELSE LET g == rest[1]
                 skip == IF Len(acc) = 0 THEN 0
                         ELSE LET lastEnd == Last(Last(acc))
                                  RECURSIVE S(_)
                                  S(i) == IF i <= Len(g) /\ Par(g[i]) <= lastEnd THEN S(i+1) ELSE i
                              IN S(1) - 1
                 RECURSIVE D(_, _)     \* deduplicate consecutive parents from position i on
                 D(i, cur) == IF i > Len(g) THEN cur
                              ELSE IF Len(cur) = 0 \/ Last(cur) # Par(g[i]) THEN D(i+1, Append(cur, Par(g[i]))) ELSE D(i+1, cur)
                 fresh == D(skip + 1, <<>>)
             IN W(Tail(rest), IF Len(fresh) = 0 THEN acc ELSE Append(acc, fresh))
  IN W(lower, <<>>)

UpperLevel(lower, bs, ogpp) == IF ogpp THEN OgppLevel(lower) ELSE PlainLevel(lower, bs)

(* The whole tree: groups[l+1] for l = 0..LeafLevel.                       *)
BuildTree(occ, bs, ogpp) ==
  LET RECURSIVE B(_, _)
      B(l, lowerGroups) == IF l < 0 THEN <<>> ELSE
                           LET g == UpperLevel(lowerGroups, bs, ogpp) IN B(l-1, g) \o <<g>>
  IN IF occ = {} THEN [l \in 1..Height |-> <<>>]
     ELSE LET leaves == LeafGroups(occ, bs) IN B(LeafLevel - 1, leaves) \o <<leaves>>

GroupsAt(groups, l) == groups[l+1]
CellsAt(groups, l)  == SeqToSet(Flatten(groups[l+1]))
\* cells of level l implied by the occupancy alone (no groups): the ancestor closure
CellsOf(occ, l) == { m \div Pow2(Dim * (LeafLevel - l)) : m \in occ }

(***************************************************************************)
(* C07 - structural invariants, as predicates over a groups value.         *)
(***************************************************************************)
SortedPartition(groups) == \A l \in Levels :
    LET f == Flatten(groups[l+1]) IN
      /\ \A i \in 1..(Len(f)-1) : f[i] < f[i+1]                \* strictly increasing across consecutive groups
      /\ \A g \in 1..Len(groups[l+1]) : Len(groups[l+1][g]) > 0  \* no empty group
AncestorClosure(groups, occ) ==
    /\ CellsAt(groups, LeafLevel) = occ
    /\ \A l \in 0..(LeafLevel-1) : CellsAt(groups, l) = { Par(c) : c \in CellsAt(groups, l+1) }
BlockBound(groups, bs, ogpp) == ~ogpp => \A l \in Levels : \A g \in 1..Len(groups[l+1]) : Len(groups[l+1][g]) <= bs
\* in one-group-per-parent mode the leaf level still respects the block size and no upper group exceeds the lower group it comes from
OgppBound(groups, bs, ogpp) == ogpp =>
    /\ \A g \in 1..Len(groups[LeafLevel+1]) : Len(groups[LeafLevel+1][g]) <= bs
    /\ \A l \in 0..(LeafLevel-1) : Len(groups[l+1]) <= Len(groups[l+2])
\* every level of a non-empty tree is non-empty and level 0 is the single root cell
RootIsSingle(groups, occ) == occ # {} => CellsAt(groups, 0) = {0}
TreeInvariant(groups, occ, bs, ogpp) ==
    /\ SortedPartition(groups) /\ AncestorClosure(groups, occ) /\ BlockBound(groups, bs, ogpp)
    /\ OgppBound(groups, bs, ogpp) /\ RootIsSingle(groups, occ)

(***************************************************************************)
(* C16 - lookup: transcription of findGroupWithCell / findGroupWithLeaf    *)
(* (lower_bound on the groups' ending index, range test, lower_bound       *)
(* inside the group) and the specification it must meet.                   *)
(***************************************************************************)
\* position (1-based) of the first group whose ending index is >= idx, or 0
LowerBoundGroup(gs, idx) ==
  LET RECURSIVE F(_)
      F(i) == IF i > Len(gs) THEN 0 ELSE IF Last(gs[i]) >= idx THEN i ELSE F(i+1)
  IN F(1)
PosInGroup(g, idx) ==
  LET RECURSIVE F(_)
      F(i) == IF i > Len(g) THEN 0 ELSE IF g[i] = idx THEN i ELSE F(i+1)
  IN F(1)
\* <<group position, cell position>> (1-based) or <<0,0>> when absent
Find(groups, l, idx) ==
  LET gs == groups[l+1]
      gi == LowerBoundGroup(gs, idx)
  IN IF gi = 0 THEN <<0, 0>>
     ELSE IF First(gs[gi]) <= idx /\ idx <= Last(gs[gi])
          THEN LET p == PosInGroup(gs[gi], idx) IN IF p = 0 THEN <<0, 0>> ELSE <<gi, p>>
          ELSE <<0, 0>>
FindIffExists(groups) == \A l \in Levels : \A idx \in (0-1)..NbCells(l) :
    LET r == Find(groups, l, idx) IN
      IF idx \in CellsAt(groups, l) THEN r[1] > 0 /\ groups[l+1][r[1]][r[2]] = idx ELSE r = <<0, 0>>
=============================================================================
