---- MODULE TaskRuntime_TTrace_1790480424 ----
EXTENDS Sequences, TLCExt, Toolbox, TaskRuntime, Naturals, TLC

_expression ==
    LET TaskRuntime_TEExpression == INSTANCE TaskRuntime_TEExpression
    IN TaskRuntime_TEExpression!expression
----

_trace ==
    LET TaskRuntime_TETrace == INSTANCE TaskRuntime_TETrace
    IN TaskRuntime_TETrace!trace
----

_inv ==
    ~(
        TLCGet("level") = Len(_TETrace)
        /\
        running = (<<5, 7>>)
        /\
        submitted = (7)
        /\
        g = (1)
        /\
        finished = ({1, 2, 3, 4, 6})
        /\
        order = (<<1, 2, 3, 4, 5, 6, 7>>)
    )
----

_init ==
    /\ running = _TETrace[1].running
    /\ g = _TETrace[1].g
    /\ finished = _TETrace[1].finished
    /\ submitted = _TETrace[1].submitted
    /\ order = _TETrace[1].order
----

_next ==
    /\ \E i,j \in DOMAIN _TETrace:
        /\ \/ /\ j = i + 1
              /\ i = TLCGet("level")
        /\ running  = _TETrace[i].running
        /\ running' = _TETrace[j].running
        /\ g  = _TETrace[i].g
        /\ g' = _TETrace[j].g
        /\ finished  = _TETrace[i].finished
        /\ finished' = _TETrace[j].finished
        /\ submitted  = _TETrace[i].submitted
        /\ submitted' = _TETrace[j].submitted
        /\ order  = _TETrace[i].order
        /\ order' = _TETrace[j].order

\* Uncomment the ASSUME below to write the states of the error trace
\* to the given file in Json format. Note that you can pass any tuple
\* to `JsonSerialize`. For example, a sub-sequence of _TETrace.
    \* ASSUME
    \*     LET J == INSTANCE Json
    \*         IN J!JsonSerialize("TaskRuntime_TTrace_1790480424.json", _TETrace)

=============================================================================

 Note that you can extract this module `TaskRuntime_TEExpression`
  to a dedicated file to reuse `expression` (the module in the 
  dedicated `TaskRuntime_TEExpression.tla` file takes precedence 
  over the module `TaskRuntime_TEExpression` below).

---- MODULE TaskRuntime_TEExpression ----
EXTENDS Sequences, TLCExt, Toolbox, TaskRuntime, Naturals, TLC

expression == 
    [
        \* To hide variables of the `TaskRuntime` spec from the error trace,
        \* remove the variables below.  The trace will be written in the order
        \* of the fields of this record.
        running |-> running
        ,g |-> g
        ,finished |-> finished
        ,submitted |-> submitted
        ,order |-> order
        
        \* Put additional constant-, state-, and action-level expressions here:
        \* ,_stateNumber |-> _TEPosition
        \* ,_runningUnchanged |-> running = running'
        
        \* Format the `running` variable as Json value.
        \* ,_runningJson |->
        \*     LET J == INSTANCE Json
        \*     IN J!ToJson(running)
        
        \* Lastly, you may build expressions over arbitrary sets of states by
        \* leveraging the _TETrace operator.  For example, this is how to
        \* count the number of times a spec variable changed up to the current
        \* state in the trace.
        \* ,_runningModCount |->
        \*     LET F[s \in DOMAIN _TETrace] ==
        \*         IF s = 1 THEN 0
        \*         ELSE IF _TETrace[s].running # _TETrace[s-1].running
        \*             THEN 1 + F[s-1] ELSE F[s-1]
        \*     IN F[_TEPosition - 1]
    ]

=============================================================================



Parsing and semantic processing can take forever if the trace below is long.
 In this case, it is advised to uncomment the module below to deserialize the
 trace from a generated binary file.

\*
\*---- MODULE TaskRuntime_TETrace ----
\*EXTENDS IOUtils, TaskRuntime, TLC
\*
\*trace == IODeserialize("TaskRuntime_TTrace_1790480424.bin", TRUE)
\*
\*=============================================================================
\*

---- MODULE TaskRuntime_TETrace ----
EXTENDS TaskRuntime, TLC

trace == 
    <<
    ([running |-> <<0, 0>>,submitted |-> 0,g |-> 1,finished |-> {},order |-> <<>>]),
    ([running |-> <<0, 0>>,submitted |-> 1,g |-> 1,finished |-> {},order |-> <<>>]),
    ([running |-> <<0, 0>>,submitted |-> 2,g |-> 1,finished |-> {},order |-> <<>>]),
    ([running |-> <<0, 0>>,submitted |-> 3,g |-> 1,finished |-> {},order |-> <<>>]),
    ([running |-> <<0, 0>>,submitted |-> 4,g |-> 1,finished |-> {},order |-> <<>>]),
    ([running |-> <<0, 0>>,submitted |-> 5,g |-> 1,finished |-> {},order |-> <<>>]),
    ([running |-> <<0, 0>>,submitted |-> 6,g |-> 1,finished |-> {},order |-> <<>>]),
    ([running |-> <<0, 0>>,submitted |-> 7,g |-> 1,finished |-> {},order |-> <<>>]),
    ([running |-> <<1, 0>>,submitted |-> 7,g |-> 1,finished |-> {},order |-> <<1>>]),
    ([running |-> <<0, 0>>,submitted |-> 7,g |-> 1,finished |-> {1},order |-> <<1>>]),
    ([running |-> <<2, 0>>,submitted |-> 7,g |-> 1,finished |-> {1},order |-> <<1, 2>>]),
    ([running |-> <<0, 0>>,submitted |-> 7,g |-> 1,finished |-> {1, 2},order |-> <<1, 2>>]),
    ([running |-> <<3, 0>>,submitted |-> 7,g |-> 1,finished |-> {1, 2},order |-> <<1, 2, 3>>]),
    ([running |-> <<0, 0>>,submitted |-> 7,g |-> 1,finished |-> {1, 2, 3},order |-> <<1, 2, 3>>]),
    ([running |-> <<4, 0>>,submitted |-> 7,g |-> 1,finished |-> {1, 2, 3},order |-> <<1, 2, 3, 4>>]),
    ([running |-> <<0, 0>>,submitted |-> 7,g |-> 1,finished |-> {1, 2, 3, 4},order |-> <<1, 2, 3, 4>>]),
    ([running |-> <<5, 0>>,submitted |-> 7,g |-> 1,finished |-> {1, 2, 3, 4},order |-> <<1, 2, 3, 4, 5>>]),
    ([running |-> <<5, 6>>,submitted |-> 7,g |-> 1,finished |-> {1, 2, 3, 4},order |-> <<1, 2, 3, 4, 5, 6>>]),
    ([running |-> <<5, 0>>,submitted |-> 7,g |-> 1,finished |-> {1, 2, 3, 4, 6},order |-> <<1, 2, 3, 4, 5, 6>>]),
    ([running |-> <<5, 7>>,submitted |-> 7,g |-> 1,finished |-> {1, 2, 3, 4, 6},order |-> <<1, 2, 3, 4, 5, 6, 7>>])
    >>
----


=============================================================================

---- CONFIG TaskRuntime_TTrace_1790480424 ----
CONSTANTS
    NbWorkers = 2
    MaxTasksExhaustive = 12
    Shard = 1
    NbShards = 8
    EmitSchedules = TRUE

INVARIANT
    _inv

CHECK_DEADLOCK
    \* CHECK_DEADLOCK off because of PROPERTY or INVARIANT above.
    FALSE

INIT
    _init

NEXT
    _next

CONSTANT
    _TETrace <- _trace

ALIAS
    _expression
=============================================================================
\* Generated on Sun Sep 27 03:40:27 UTC 2026