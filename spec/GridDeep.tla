------------------------------ MODULE GridDeep ------------------------------
(***************************************************************************)
(* C11 for DEEP cells: levels whose indices need up to 63 bits, far beyond *)
(* TLC's 32-bit integers.  A coordinate is a sequence of limbs (most       *)
(* significant first, LimbBits bits each, the first limb holding the       *)
(* remaining TopBits); the only arithmetic needed on them is adding a      *)
(* small offset with carry/borrow and halving.  Everything else of the     *)
(* Grid definitions depends on the low bit and the offset only:            *)
(*   parent(c + o) - parent(c) = floor((lowbit(c) + o) / 2).               *)
(* Cells are sampled at the places where bit tricks break: limbs all 0,    *)
(* all 1, and around the carries.  TLC prints, per cell, the coordinates   *)
(* (as limbs) of the parent, the neighbours and the interaction list with  *)
(* their position codes; harness/conf_grid.cpp (mode "deep") recomposes    *)
(* 64-bit integers and compares with the library.                          *)
(***************************************************************************)
EXTENDS Naturals, Integers, Sequences, FiniteSets, TLC, Json, FiniteSetsExt
CONSTANTS Dim, Level, Periodic, LimbBits, Shard, NbShards

Dims == 1..Dim
B == 2^LimbBits
NL == (Level + LimbBits - 1) \div LimbBits
TopBits == Level - (NL - 1) * LimbBits
TopMax == 2^TopBits - 1
Abs(x) == IF x < 0 THEN 0 - x ELSE x
\* sampled limb values: extremes and neighbours of the carries
LowLimb == {0, 1, 2, B \div 2 - 1, B \div 2, B - 3, B - 2, B - 1}
TopLimb == {0, 1, TopMax \div 2, TopMax - 1, TopMax} \cap (0..TopMax)
Coord1 == { c \in [1..NL -> TopLimb \cup LowLimb] : c[1] \in TopLimb /\ \A i \in 2..NL : c[i] \in LowLimb }

\* c + o for a small integer o: <<limbs, wrap>> where wrap = -1 / 0 / +1 box widths were crossed
AddSmall(c, o) ==
  LET F[i \in 0..NL] ==      \* processes limbs NL, NL-1, ..., NL-i+1; value <<limbs so far (as function), carry>>
        IF i = 0 THEN <<[j \in 1..NL |-> c[j]], o>>
        ELSE LET prev == F[i-1]
                 k == NL - i + 1
                 base == IF k = 1 THEN TopMax + 1 ELSE B
                 v == prev[1][k] + prev[2]
                 carry == IF v < 0 THEN 0 - 1 ELSE IF v >= base THEN 1 ELSE 0
             IN <<[prev[1] EXCEPT ![k] = v - carry * base], carry>>
  IN F[NL]
LowBit(c) == c[NL] % 2
\* floor(c / 2) on limbs (the parent coordinate, a Level-1 coordinate kept in the same limb layout)
Half(c) == [i \in 1..NL |-> (c[i] \div 2) + (IF i > 1 /\ c[i-1] % 2 = 1 THEN B \div 2 ELSE 0)]
FloorDiv2(x) == IF x >= 0 THEN x \div 2 ELSE 0 - ((1 - x) \div 2)
Offsets(r) == [Dims -> (0-r)..r]
Cheb(o) == LET M[d \in 0..Dim] == IF d = 0 THEN 0 ELSE IF Abs(o[d]) > M[d-1] THEN Abs(o[d]) ELSE M[d-1] IN M[Dim]
Enc(off, base, shift) == LET E[d \in 0..Dim] == IF d = 0 THEN 0 ELSE E[d-1] * base + (off[d] + shift) IN E[Dim]

VARIABLE cell        \* [Dims -> Coord1]
Init == cell \in { c \in [Dims -> Coord1] :
                     (FoldSet(LAMBDA d, acc : acc * 7 + c[d][NL] + 3 * c[d][1], 0, Dims)) % NbShards = Shard }
Next == UNCHANGED cell
Spec == Init /\ [][Next]_cell

Moved(o) == [d \in Dims |-> AddSmall(cell[d], o[d])]
InBoxO(o) == \A d \in Dims : Moved(o)[d][2] = 0
NeighOffsets == { o \in Offsets(1) : Cheb(o) = 1 /\ (Periodic \/ InBoxO(o)) }
ILOffsets == { o \in Offsets(3) : /\ Cheb(o) > 1 /\ (Periodic \/ InBoxO(o))
                                   /\ \A d \in Dims : Abs(FloorDiv2(LowBit(cell[d]) + o[d])) <= 1 }
\* sanity of the limb arithmetic itself: adding o then -o returns the cell; the parent of the right neighbour of an odd cell is the
\* right neighbour of the parent (halving commutes with the carry)
ArithmeticOK == /\ \A o \in Offsets(3) : \A d \in Dims : AddSmall(AddSmall(cell[d], o[d])[1], 0 - o[d])[1] = cell[d]
                /\ \A d \in Dims : LET up == AddSmall(cell[d], 1) IN
                      (up[2] = 0 /\ LowBit(cell[d]) = 1) => Half(up[1]) = AddSmall(Half(cell[d]), 1)[1]
\* symmetric lists (b in IL(a) with o  <=>  a in IL(b) with -o) hold by construction of the definition through the low bit:
ILOffsetRule == \A o \in ILOffsets : \A d \in Dims : Abs(o[d]) <= 3 /\ (LowBit(cell[d]) = 0 => o[d] >= 0 - 2) /\ (LowBit(cell[d]) = 1 => o[d] <= 2)
Emit == PrintT(ToJson([ k |-> "deep", level |-> Level, c |-> [d \in Dims |-> cell[d]],
                        parent |-> [d \in Dims |-> Half(cell[d])],
                        cc |-> Enc([d \in Dims |-> LowBit(cell[d]) - 0], 2, 0),
                        nb |-> { [c |-> [d \in Dims |-> Moved(o)[d][1]], code |-> Enc(o, 3, 1)] : o \in NeighOffsets },
                        il |-> { [c |-> [d \in Dims |-> Moved(o)[d][1]], code |-> Enc(o, 7, 3)] : o \in ILOffsets } ]))
=============================================================================
