----------------------------- MODULE GridCheck -----------------------------
(***************************************************************************)
(* Checks the index algebra of Grid (property C11) and prints, for every   *)
(* cell of every level, the lists the library must produce, as one JSON    *)
(* line per cell (consumed by harness/conf_grid.cpp: spec -> code).        *)
(*                                                                         *)
(* Ordering = "morton": indices are Grid!Morton.                           *)
(* Ordering = "table" : the coordinate<->index map is READ FROM THE        *)
(*   IMPLEMENTATION (a table dumped by the harness from                    *)
(*   getBoxPosFromIndex; code -> spec) and the same axioms are checked on  *)
(*   it; used for the Hilbert ordering, for which the specification does   *)
(*   not prescribe the curve, only that it is a consistent hierarchy.      *)
(*                                                                         *)
(* One initial state per cell.  TLC is run with ONE worker per process and  *)
(* the cells are sharded over processes (constants Shard / NbShards): with *)
(* several workers TLC re-evaluates lazily evaluated constant tables in    *)
(* every worker (measured: 4.6 s with 1 worker, 41 s with 16), whereas     *)
(* single-worker processes cache them and scale linearly.                  *)
(***************************************************************************)
EXTENDS Grid, TLC, Json, IOUtils
CONSTANTS Ordering, EmitJson, Shard, NbShards

\* ---- the coordinate -> index map under test -------------------------------
TableRows == IF Ordering = "table" THEN ndJsonDeserialize(IOEnv.GRID_TABLE) ELSE <<>>
\* TableRows[l+1].tab[m+1] = coordinate (sequence of Dim naturals) of index m at level l
(* Tables are evaluated once in an ASSUME and parked in TLC registers       *)
(* (TLCSet/TLCGet): TLC does not reliably pre-evaluate constant-level      *)
(* definitions (measured: the same table element was re-evaluated on every *)
(* application), whereas a register holds the fully evaluated value for    *)
(* all workers.                                                            *)
TabCoordDef == [l \in Levels |-> [m \in 0..(NbCells(l)-1) |->
               IF Ordering = "table" THEN [d \in Dims |-> TableRows[l+1].tab[m+1][d]] ELSE CoordOf(m, l)]]
ASSUME TLCSet(1, TabCoordDef)
TabCoord == TLCGet(1)
Coord(m, l) == TabCoord[l][m]
\* inverse table keyed by the row-major number of the coordinate (integer keys keep look-ups cheap)
RowMajor(c, l) == LET R[d \in 0..Dim] == IF d = 0 THEN 0 ELSE R[d-1] * Side(l) + c[d] IN R[Dim]
TabIndexDef == [l \in Levels |-> [e \in 0..(NbCells(l)-1) |->
                 IF Ordering = "table"
                 THEN IF \E m \in 0..(NbCells(l)-1) : RowMajor(TabCoord[l][m], l) = e
                      THEN CHOOSE m \in 0..(NbCells(l)-1) : RowMajor(TabCoord[l][m], l) = e
                      ELSE 0 - 1          \* not a bijection: reported by the Bijection axiom
                 ELSE 0]]
ASSUME TLCSet(6, TabIndexDef)
Index(c, l) == IF Ordering = "table" THEN TLCGet(6)[l][RowMajor(c, l)] ELSE Morton(c, l)
ParentIdx(m) == m \div Pow2(Dim)          \* what every shipped ordering uses (index >> Dim)
ChildCode(m) == m % Pow2(Dim)

\* ---- enumeration of cells --------------------------------------------------
\* cells of all levels in one sequence: position k (1-based) <-> <<level, index>>, computed arithmetically
Off(l) == (NbCells(l) - 1) \div (Pow2(Dim) - 1)       \* number of cells above level l
N == Off(LeafLevel + 1)
LevelOfPos == [j \in 1..N |-> CHOOSE l \in Levels : Off(l) < j /\ j <= Off(l+1)]

VARIABLE k
Init == k \in { j \in 1..N : j % NbShards = Shard }
Next == UNCHANGED k
Spec == Init /\ [][Next]_k

\* lists cached per cell and keyed by integers: sets of <<source index, position code>>
\* (constant-level zero-arity definitions are evaluated once by TLC; integer keys keep look-ups cheap)
ILIDef == [l \in Levels |-> [m \in 0..(NbCells(l)-1) |-> { <<Index(x[1], l), Enc7(x[2])>> : x \in IL(Coord(m, l), l) }]]
NBIDef == [l \in Levels |-> [m \in 0..(NbCells(l)-1) |-> { <<Index(x[1], l), Enc3(x[2])>> : x \in Neigh(Coord(m, l), l) }]]
ASSUME TLCSet(2, ILIDef)
ASSUME TLCSet(3, NBIDef)
ILI == TLCGet(2)
NBI == TLCGet(3)
Neg7(code) == (7^Dim - 1) - code        \* code of the opposite offset (digit d -> 6-d)
Neg3(code) == (3^Dim - 1) - code

L == LevelOfPos[k]
M == k - 1 - Off(L)
C == Coord(M, L)

\* ---- C11 invariants ---------------------------------------------------------
\* coordinates and indices are in bijection below the upper bound of the level
Bijection == /\ C \in Coords(L)
             /\ Index(C, L) = M
             /\ \A m2 \in 0..(NbCells(L)-1) : Coord(m2, L) = C => m2 = M
\* the parent index designates the cell that geometrically contains this one
ParentContains == L > 0 => Coord(ParentIdx(M), L-1) = ParentC(C)
\* children of one parent have distinct child codes (identify the octant uniquely)
ChildCodeDistinct == L > 0 => \A m2 \in 0..(NbCells(L)-1) :
                        (m2 # M /\ ParentIdx(m2) = ParentIdx(M)) => ChildCode(m2) # ChildCode(M)
\* for Morton the code IS the octant (dimension 1 most significant bit)
ChildCodeIsOctant == (Ordering = "morton" /\ L > 0) => ChildCode(M) = ChildCodeC(C)
\* position codes are inverse to each other, in range, and decode to the true relative offset (modulo the box)
CodeRoundTrip == /\ \A x \in ILI[L][M] : /\ x[2] \in 0..(7^Dim - 1) /\ Enc7(Dec7(x[2])) = x[2]
                                          /\ Coord(x[1], L) = Wrap(Add(C, Dec7(x[2])), L)
                                          /\ Cheb(Dec7(x[2])) > 1
                 /\ \A x \in NBI[L][M] : /\ x[2] \in 0..(3^Dim - 1) /\ Enc3(Dec3(x[2])) = x[2]
                                          /\ Coord(x[1], L) = Wrap(Add(C, Dec3(x[2])), L)
                                          /\ Cheb(Dec3(x[2])) = 1
\* lists are symmetric: b in IL(a) with offset o  <=>  a in IL(b) with offset -o
ILSymmetric    == \A x \in ILI[L][M] : <<M, Neg7(x[2])>> \in ILI[L][x[1]]
NeighSymmetric == \A x \in NBI[L][M] : <<M, Neg3(x[2])>> \in NBI[L][x[1]]
\* when periodic every cell has full lists
PeriodicCardinality == Periodic => /\ Cardinality(NBI[L][M]) = 3^Dim - 1
                                   /\ (L >= 1 => Cardinality(ILI[L][M]) = 6^Dim - 3^Dim)
\* clipped lists: exactly the cells of the level that are adjacent / children of the parent's neighbourhood and not adjacent
ListsAreGeometric ==
  ~Periodic =>
     /\ { x[1] : x \in NBI[L][M] } = { m2 \in 0..(NbCells(L)-1) : Cheb(Sub(Coord(m2, L), C)) = 1 }
     /\ (L >= MinILLevel =>
           { x[1] : x \in ILI[L][M] } =
             { m2 \in 0..(NbCells(L)-1) : /\ Cheb(Sub(ParentC(Coord(m2, L)), ParentC(C))) <= 1
                                          /\ Cheb(Sub(Coord(m2, L), C)) > 1 })
     /\ (L < MinILLevel => ILI[L][M] = {})
\* the upper-half filter keeps exactly one direction of every neighbour pair
HalfFilterAntisymmetric == \A x \in NBI[L][M] : (x[2] > Half3) # (Neg3(x[2]) > Half3)

(* C10 (periodic shifter): the neighbour reached across a face is the      *)
(* wrapped cell displaced by ImageOf box widths, each component in -1..1,  *)
(* and a shift is needed exactly when some component is not 0.             *)
ShiftIsImage == (Periodic /\ L = LeafLevel) =>
    \A x \in NBI[L][M] : LET o == Dec3(x[2])  img == ImageOf(C, o, L) IN
                          /\ \A d \in Dims : img[d] \in {0 - 1, 0, 1}
                          /\ Add(C, o) = Add(Coord(x[1], L), Scale(img, Side(L)))
                          /\ (img = Zero <=> InBox(Add(C, o), L))

(* Partition lemma (the design reason for C01): two distinct leaves are    *)
(* either adjacent, or there is exactly one level at which their ancestors *)
(* are in each other's interaction list - never both, never twice.         *)
(* Evaluated on integer indices (ancestor of leaf b at level l is          *)
(* b div 2^(Dim*(LeafLevel-l)) for the Morton ordering).                   *)
\* (registers again: a LET-bound function constructor would be re-evaluated on every application)
ILSrcDef == [l \in Levels |-> [m \in 0..(NbCells(l)-1) |-> { x[1] : x \in ILI[l][m] }]]
NBSrcDef == [m \in 0..(NbCells(LeafLevel)-1) |-> { x[1] : x \in NBI[LeafLevel][m] }]
ASSUME TLCSet(4, ILSrcDef)
ASSUME TLCSet(5, NBSrcDef)
ILSrc == TLCGet(4)
NBSrc == TLCGet(5)
PartitionLemma ==
  (L = LeafLevel /\ ~Periodic /\ Ordering = "morton") =>
    \A b \in 0..(NbCells(LeafLevel)-1) : b # M =>
         (IF b \in NBSrc[M] THEN 1 ELSE 0)
         + Cardinality({ l \in 2..LeafLevel : (b \div Pow2(Dim * (LeafLevel - l)))
                                                 \in ILSrc[l][M \div Pow2(Dim * (LeafLevel - l))] }) = 1

\* ---- emission of expected lists (spec -> code) -------------------------------
\* lists as sets of integers  index * 7^Dim + code  (fits 31 bits for the bounded heights)
ILInts    == { x[1] * (7^Dim) + x[2] : x \in ILI[L][M] }
NeighInts == { x[1] * (3^Dim) + x[2] : x \in NBI[L][M] }
\* expected periodic shifts of the leaf neighbours: (index * 3^Dim + code) * 3^Dim + Enc3(image)
ShiftInts == IF Periodic /\ L = LeafLevel
             THEN { (x[1] * (3^Dim) + x[2]) * (3^Dim) + Enc3(ImageOf(C, Dec3(x[2]), L)) : x \in NBI[L][M] } ELSE {}
\* the axioms as data (used when the table comes from the implementation: every failing cell is listed, not only the first)
Axioms == [ Bijection |-> Bijection, ParentContains |-> ParentContains, ChildCodeDistinct |-> ChildCodeDistinct,
            CodeRoundTrip |-> CodeRoundTrip, ILSymmetric |-> ILSymmetric, NeighSymmetric |-> NeighSymmetric,
            ListsAreGeometric |-> ListsAreGeometric ]
Emit == EmitJson => PrintT(ToJson([ k |-> "cell", l |-> L, m |-> M, c |-> C, ax |-> Axioms,
                                   p |-> IF L > 0 THEN Index(ParentC(C), L-1) ELSE 0 - 1,
                                   cc |-> IF L > 0 THEN ChildCodeC(C) ELSE 0 - 1,
                                   il |-> ILInts, nb |-> NeighInts, sh |-> ShiftInts ]))
=============================================================================
