------------------------------- MODULE Grid -------------------------------
(***************************************************************************)
(* L0 - geometry and index algebra of the tbfmm grid hierarchy.            *)
(*                                                                         *)
(* Everything here is defined from first principles on integer grid        *)
(* coordinates (never by bit tricks): a cell of level l is a point of      *)
(* (0..2^l-1)^Dim; the Morton index interleaves the coordinate bits with   *)
(* dimension 1 (C++ dimension 0) most significant inside each bit group.   *)
(* The library's TbfMortonSpaceIndex is compared against these definitions *)
(* by the conformance harness (harness/conf_grid.cpp).                     *)
(***************************************************************************)
EXTENDS Naturals, Integers, Sequences, FiniteSets
CONSTANTS Dim,        \* space dimension (1..4)
          Height,     \* tree height: levels 0..Height-1, leaves at Height-1
          Periodic    \* BOOLEAN: periodic ordering (lists wrap) or not (lists clip)

Dims      == 1..Dim
LeafLevel == Height - 1
Levels    == 0..LeafLevel
Pow2(n)   == 2^n
Side(l)   == Pow2(l)                 \* cells per dimension at level l
NbCells(l) == Pow2(l * Dim)          \* upper bound of the indices of level l
Coords(l) == [Dims -> 0..(Side(l)-1)]
Abs(x)    == IF x < 0 THEN -x ELSE x
Zero      == [d \in Dims |-> 0]

\* bit b (0 = least significant) of natural n
Bit(n, b) == (n \div Pow2(b)) % 2

(* Morton index of coordinate c at level l: bit b of dimension d goes to   *)
(* position b*Dim + (Dim-d).                                               *)
(* NOTE on style: the helpers below use recursive FUNCTIONS, not RECURSIVE  *)
(* operators.  TLC pre-evaluates a constant table such as                  *)
(* [l \in Levels |-> [m \in ... |-> F(m, l)]] only if F avoids RECURSIVE    *)
(* operators; otherwise every application of the table re-evaluates F      *)
(* (measured: 40x slower).                                                 *)
Morton(c, l) ==
  LET S[k \in 0..(l*Dim)] ==
        IF k = 0 THEN 0
        ELSE LET kk == k - 1
                 b  == kk \div Dim
                 d  == Dim - (kk % Dim)
             IN Bit(c[d], b) * Pow2(kk) + S[kk]
  IN S[l * Dim]

CoordOf(m, l) == [d \in Dims |->
   LET S[b \in 0..l] == IF b = 0 THEN 0 ELSE Bit(m, (b-1)*Dim + (Dim-d)) * Pow2(b-1) + S[b-1]
   IN S[l]]

ParentC(c)    == [d \in Dims |-> c[d] \div 2]
\* child-position code of c inside its parent: dimension 1 is the most significant bit
ChildCodeC(c) ==
  LET S[d \in 0..Dim] == IF d = 0 THEN 0 ELSE S[d-1] * 2 + (c[d] % 2)
  IN S[Dim]

Add(c, o)  == [d \in Dims |-> c[d] + o[d]]
Sub(a, b)  == [d \in Dims |-> a[d] - b[d]]
Scale(v,k) == [d \in Dims |-> v[d] * k]
Cheb(o) ==
  LET M[d \in 0..Dim] == IF d = 0 THEN 0 ELSE LET r == M[d-1] IN IF Abs(o[d]) > r THEN Abs(o[d]) ELSE r
  IN M[Dim]
InBox(c, l) == \A d \in Dims : c[d] >= 0 /\ c[d] < Side(l)
Wrap(c, l)  == [d \in Dims |-> (c[d] + 4 * Side(l)) % Side(l)]
\* floor division by two, also for negative coordinates (images outside the box)
FloorHalf(x) == IF x >= 0 THEN x \div 2 ELSE 0 - ((1 - x) \div 2)

\* floor division by a positive n, also for negative x
FloorDiv(x, n) == IF x >= 0 THEN x \div n ELSE 0 - ((n - 1 - x) \div n)
(* Periodic images.  The cell reached from c by the offset o lies in the   *)
(* copy of the box numbered ImageOf(c, o, l) (per dimension -1, 0 or 1 for *)
(* neighbour offsets): a kernel that works on positions must see the       *)
(* particles of the wrapped cell displaced by that many box widths         *)
(* (src/utils/tbfperiodicshifter.hpp).                                     *)
ImageOf(c, o, l) == [d \in Dims |-> FloorDiv(c[d] + o[d], Side(l))]

Offsets(r) == [Dims -> (0-r)..r]

(* Position codes: base-7 digits (offset+3) for transfer offsets, base-3   *)
(* digits (offset+1) for neighbour offsets, dimension 1 most significant.  *)
Enc(off, base, shift) ==
  LET E[d \in 0..Dim] == IF d = 0 THEN 0 ELSE E[d-1] * base + (off[d] + shift)
  IN E[Dim]
Enc7(off)  == Enc(off, 7, 3)
Enc3(off)  == Enc(off, 3, 1)
Dec7(code) == [d \in Dims |-> ((code \div (7^(Dim-d))) % 7) - 3]
Dec3(code) == [d \in Dims |-> ((code \div (3^(Dim-d))) % 3) - 1]
Half3      == (3^Dim) \div 2      \* code of the null offset; "upper half" = codes > Half3

(* Neighbour offsets of cell c at level l: the 3^Dim-1 offsets of          *)
(* Chebyshev norm 1, clipped at the box unless periodic.                   *)
NeighOffsets(c, l) == { o \in Offsets(1) : o # Zero /\ (Periodic \/ InBox(Add(c, o), l)) }
(* Interaction offsets: cells at Chebyshev distance > 1 whose parent is    *)
(* the parent of c or adjacent to it (images allowed when periodic).       *)
ILOffsets(c, l) ==
  { o \in Offsets(3) :
      /\ Cheb(o) > 1
      /\ (Periodic \/ InBox(Add(c, o), l))
      /\ LET s  == Add(c, o)
             sp == [d \in Dims |-> FloorHalf(s[d])]
         IN Cheb(Sub(sp, ParentC(c))) <= 1 }
MinILLevel == IF Periodic THEN 1 ELSE 2
\* sets of <<wrapped target coordinate, unwrapped offset>>
Neigh(c, l) == { <<Wrap(Add(c, o), l), o>> : o \in NeighOffsets(c, l) }
IL(c, l)    == IF l < MinILLevel THEN {} ELSE { <<Wrap(Add(c, o), l), o>> : o \in ILOffsets(c, l) }
=============================================================================
