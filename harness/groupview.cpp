// C14, group containers with heterogeneous element types: "copying the bytes of a group's buffers elsewhere and viewing the copy through the
// library's raw-memory constructor yields a group whose every accessor returns the same values".  The groups of real trees are used
// (TbfCellsContainer / TbfParticlesContainer as the tree builds them), for combinations of multipole / local types of DIFFERENT sizes, data type
// different from the coordinate type, 0..3 result values, several particles per leaf; the announced size of every buffer must be the size the
// owning group reports, and (AddressSanitizer build) no copy or accessor leaves its buffer.
// usage: groupview <seed> <iterations>
#include "hcommon.hpp"
#include "spacial/tbfmortonspaceindex.hpp"
#include "spacial/tbfspacialconfiguration.hpp"
#include "core/tbftree.hpp"
#include <random>
#include <cstring>
using namespace vh;

template <int N> struct Blob { unsigned char b[N]; };

template <class T> static void fillPattern(T& x, unsigned long salt){ unsigned char* p = reinterpret_cast<unsigned char*>(&x); for(size_t i = 0; i < sizeof(T); ++i) p[i] = (unsigned char)(1 + (salt * 131 + i * 7) % 251); }

template <long Dim, class Real, class Data, long NbData, class Rhs, long NbRhs, class Mp, class Lo>
static void runCombo(Report& rep, const char* name, unsigned long seed, long iters){
    using Conf = TbfSpacialConfiguration<Real, Dim>;
    using Space = TbfMortonSpaceIndex<Dim, Conf, false>;
    using Tree = TbfTree<Real, Data, NbData, Rhs, NbRhs, Mp, Lo, Space>;
    std::mt19937_64 rng(seed * 7919 + 13);
    for(long it = 0; it < iters; ++it){
        const long H = 2 + (long)(rng() % 3); const long side = 1L << (H - 1);
        const long nl = 1L << ((H - 1) * Dim);
        const long N = (it % 4 == 0) ? 1 + (long)(rng() % 3) : 1 + (long)(rng() % (unsigned long)std::min<long>(3 * nl, 140));
        const long bs = (it % 3 == 0) ? 1 + (long)(rng() % 9) : (it % 3 == 1 ? 64 + (long)(rng() % 3) : 1000);
        const bool ogpp = rng() % 2;
        std::array<Real,Dim> w, c; for(long d = 0; d < Dim; ++d){ w[d] = Real(1 + d); c[d] = Real(0.5 * d); }
        const Conf conf(H, w, c);
        std::vector<std::array<Data, NbData>> pos(N);
        for(long i = 0; i < N; ++i){ for(long d = 0; d < Dim; ++d){ const long k = (long)(rng() % (unsigned long)side); pos[i][d] = Data(double(conf.getBoxCorner()[d]) + (double(k) + 0.25 + 0.5 * double(rng() % 2)) * (double(w[d]) / double(side))); }
            for(long v = Dim; v < NbData; ++v) pos[i][v] = Data(double(i) * 1.5 + double(v)); }
        std::ostringstream ks; ks << name << "-seed" << seed << "-it" << it << "-h" << H << "-n" << N << "-bs" << bs << "-og" << ogpp; const std::string key = ks.str();
        rep.scenarios++;
        Tree tree(conf, pos, bs, ogpp);
        // give every expansion and result a recognisable content
        unsigned long salt = 1;
        for(long l = 0; l < H; ++l) for(auto& g : tree.getCellGroupsAtLevel(l)) for(long i = 0; i < g.getNbCells(); ++i){ fillPattern(g.getCellMultipole(i), salt++); fillPattern(g.getCellLocal(i), salt++); }
        if constexpr(NbRhs > 0) tree.applyToAllLeaves([&](auto&& h, const long*, auto, auto rhs){ for(long v = 0; v < NbRhs; ++v) for(long i = 0; i < h.nbParticles; ++i) fillPattern(rhs[v][i], salt++); });
        using CellGroup = typename std::decay<decltype(tree.getCellGroupsAtLevel(0)[0])>::type;
        using PartGroup = typename std::decay<decltype(tree.getParticleGroups()[0])>::type;
        for(long l = 0; l < H; ++l) for(auto& g : tree.getCellGroupsAtLevel(l)){
            auto ps = g.getDataPtrsAndSizes();
            rep.ok("ViewEquiv", key, ps[0].first == g.getDataPtr() && ps[1].first == g.getMultipolePtr() && ps[2].first == g.getLocalPtr(), "getDataPtrsAndSizes: a pointer is not the buffer's");
            rep.ok("ViewEquiv", key, (long)ps[0].second == (long)g.getDataSize() && (long)ps[1].second == (long)g.getMultipoleSize() && (long)ps[2].second == (long)g.getLocalSize(),
                   "getDataPtrsAndSizes announces " + std::to_string(ps[0].second) + "/" + std::to_string(ps[1].second) + "/" + std::to_string(ps[2].second) + " bytes, the buffers hold "
                   + std::to_string(g.getDataSize()) + "/" + std::to_string(g.getMultipoleSize()) + "/" + std::to_string(g.getLocalSize()) + " (cell group, level " + std::to_string(l) + ", " + std::to_string(g.getNbCells()) + " cells)");
            std::array<std::vector<unsigned char>,3> copy; std::array<std::pair<unsigned char*, size_t>,3> cp;
            const size_t real[3] = {(size_t)g.getDataSize(), (size_t)g.getMultipoleSize(), (size_t)g.getLocalSize()};
            for(int k = 0; k < 3; ++k){ copy[k].assign(ps[k].first, ps[k].first + std::min(ps[k].second, real[k])); copy[k].resize(ps[k].second, 0xEE); cp[k] = {copy[k].data(), copy[k].size()}; }
            if(ps[0].second != real[0] || ps[1].second != real[1] || ps[2].second != real[2]) continue;      // already reported; a view over a wrong size may fault
            CellGroup view(cp);
            bool same = view.getNbCells() == g.getNbCells() && view.getStartingSpacialIndex() == g.getStartingSpacialIndex() && view.getEndingSpacialIndex() == g.getEndingSpacialIndex();
            for(long i = 0; same && i < g.getNbCells(); ++i){
                const unsigned char* vm = reinterpret_cast<const unsigned char*>(&view.getCellMultipole(i)); const unsigned char* vl = reinterpret_cast<const unsigned char*>(&view.getCellLocal(i));
                const bool inside = vm >= cp[1].first && vm + sizeof(Mp) <= cp[1].first + cp[1].second && vl >= cp[2].first && vl + sizeof(Lo) <= cp[2].first + cp[2].second;
                if(!inside){ rep.ok("ViewEquiv", key, false, "an expansion accessor of the view points outside its buffer (level " + std::to_string(l) + ", cell " + std::to_string(i) + ")"); same = false; break; }
                same = view.getCellSpacialIndex(i) == g.getCellSpacialIndex(i) && view.getCellBoxCoord(i) == g.getCellBoxCoord(i)
                       && std::memcmp(vm, &g.getCellMultipole(i), sizeof(Mp)) == 0 && std::memcmp(vl, &g.getCellLocal(i), sizeof(Lo)) == 0
                       && view.getElementFromSpacialIndex(g.getCellSpacialIndex(i)) == g.getElementFromSpacialIndex(g.getCellSpacialIndex(i));
            }
            rep.ok("ViewEquiv", key, same, "a byte copy of a cell group (level " + std::to_string(l) + ", " + std::to_string(g.getNbCells()) + " cells) viewed through the raw-memory constructor differs from the group");
        }
        for(auto& g : tree.getParticleGroups()){
            auto ps = g.getDataPtrsAndSizes();
            rep.ok("ViewEquiv", key, (long)ps[0].second == (long)g.getDataSize() && (long)ps[1].second == (long)g.getRhsSize(), "getDataPtrsAndSizes of a particle group announces sizes that are not the buffers'");
            if((long)ps[0].second != (long)g.getDataSize() || (long)ps[1].second != (long)g.getRhsSize()) continue;
            std::array<std::vector<unsigned char>,2> copy; std::array<std::pair<unsigned char*, size_t>,2> cp;
            for(int k = 0; k < 2; ++k){ copy[k].assign(ps[k].first, ps[k].first + ps[k].second); cp[k] = {copy[k].data(), copy[k].size()}; }
            PartGroup view(cp);
            bool same = view.getNbLeaves() == g.getNbLeaves() && view.getNbParticles() == g.getNbParticles() && view.getStartingSpacialIndex() == g.getStartingSpacialIndex() && view.getEndingSpacialIndex() == g.getEndingSpacialIndex();
            for(long i = 0; same && i < g.getNbLeaves(); ++i){
                same = view.getLeafSpacialIndex(i) == g.getLeafSpacialIndex(i) && view.getNbParticlesInLeaf(i) == g.getNbParticlesInLeaf(i) && view.getLeafBoxCoord(i) == g.getLeafBoxCoord(i);
                if(!same) break;
                const long n = g.getNbParticlesInLeaf(i);
                same = std::memcmp(view.getParticleIndexes(i), g.getParticleIndexes(i), sizeof(long) * n) == 0;
                auto dv = view.getParticleData(i), dg = g.getParticleData(i);
                for(long v = 0; same && v < NbData; ++v){
                    const unsigned char* p = reinterpret_cast<const unsigned char*>(dv[v]);
                    if(!(p >= cp[0].first && p + sizeof(Data) * n <= cp[0].first + cp[0].second)){ same = false; rep.ok("ViewEquiv", key, false, "a data-row accessor of the view points outside its buffer"); break; }
                    same = std::memcmp(dv[v], dg[v], sizeof(Data) * n) == 0; }
                if constexpr(NbRhs > 0){ auto rv = view.getParticleRhs(i), rg = g.getParticleRhs(i);
                    for(long v = 0; same && v < NbRhs; ++v){
                        const unsigned char* p = reinterpret_cast<const unsigned char*>(rv[v]);
                        if(!(p >= cp[1].first && p + sizeof(Rhs) * n <= cp[1].first + cp[1].second)){ same = false; rep.ok("ViewEquiv", key, false, "a result-row accessor of the view points outside its buffer"); break; }
                        same = std::memcmp(rv[v], rg[v], sizeof(Rhs) * n) == 0; } }
            }
            rep.ok("ViewEquiv", key, same, "a byte copy of a particle group (" + std::to_string(g.getNbLeaves()) + " leaves, " + std::to_string(g.getNbParticles()) + " particles) viewed through the raw-memory constructor differs from the group");
        }
    }
}

int main(int argc, char** argv){
    const unsigned long seed = argc > 1 ? strtoul(argv[1], nullptr, 10) : 1; const long iters = argc > 2 ? atol(argv[2]) : 20;
    Report rep;
    runCombo<3, double, double, 4, double, 1, std::array<double,1>, std::array<double,3>>(rep, "d3-mp8-lo24", seed, iters);
    runCombo<3, double, double, 4, double, 4, std::array<double,7>, std::array<double,2>>(rep, "d3-mp56-lo16", seed, iters);
    runCombo<2, float, double, 3, long, 2, std::array<float,3>, std::array<long,4>>(rep, "d2-float-data8-mp12-lo32", seed, iters);
    runCombo<1, double, float, 2, Blob<2>, 3, Blob<1>, Blob<200>>(rep, "d1-data4-rhs2b-mp1-lo200", seed, iters);
    runCombo<2, double, double, 3, double, 0, Blob<65>, Blob<64>>(rep, "d2-norhs-mp65-lo64", seed, iters);
    runCombo<4, float, float, 5, float, 1, Blob<24>, Blob<8>>(rep, "d4-float-mp24-lo8", seed, iters);
    return rep.finish("groupview");
}
