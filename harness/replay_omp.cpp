// C03 / C15 / C18: the OpenMP task executors under the controllable mock runtime (mockomp.hpp).
// For every scenario printed by TLC from spec/Fmm.tla:
//   1. the sequential executor gives the reference state;
//   2. the OpenMP executor is run under a list of (strategy, thread count, worker policy, seed) schedules - immediate,
//      fully deferred fifo / lifo / random / priority-inverted, with the dead stack scrubbed before deferred tasks run -
//      and must leave every cell and every particle with the same bag as the sequential executor;
//   3. the submitted task graph is recorded (declared dependences mapped back to the group buffers they designate, actual
//      accesses taken from the kernel callbacks of each task) and the static sufficient condition Covered is evaluated;
//      graphs are also written as ndjson for TLC (spec/TaskRuntime.tla explores their interleavings).
// build: g++ -std=c++17 -fopenmp -DDIMV=<d> -DPERIODICV=<p> -I/repo/src replay_omp.cpp   (links libgomp but never calls it)
#include "mockomp.hpp"
#include "fmmrun.hpp"
#ifndef RUNTIMEV
#define RUNTIMEV 0        // 0 OpenMP (GOMP ABI mock), 1 Specx (mock Legacy/SpRuntime.hpp), 2 StarPU (mock starpu.h)
#endif
#if RUNTIMEV == 1
#include "algorithms/smspecx/tbfsmspecxalgorithm.hpp"
#include "algorithms/smspecx/tbfsmspecxalgorithmtsm.hpp"
template <class R, class K, class S> using TaskAlgo = TbfSmSpecxAlgorithm<R, K, S>;
template <class R, class K, class S> using TaskAlgoTsm = TbfSmSpecxAlgorithmTsm<R, K, S>;
#elif RUNTIMEV == 2
#include "algorithms/smstarpu/tbfsmstarpualgorithm.hpp"
#include "algorithms/smstarpu/tbfsmstarpualgorithmtsm.hpp"
template <class R, class K, class S> using TaskAlgo = TbfSmStarpuAlgorithm<R, K, S>;
template <class R, class K, class S> using TaskAlgoTsm = TbfSmStarpuAlgorithmTsm<R, K, S>;
#else
#include "algorithms/openmp/tbfopenmpalgorithm.hpp"
#include "algorithms/openmp/tbfopenmpalgorithmtsm.hpp"
template <class R, class K, class S> using TaskAlgo = TbfOpenmpAlgorithm<R, K, S>;
template <class R, class K, class S> using TaskAlgoTsm = TbfOpenmpAlgorithmTsm<R, K, S>;
#endif
#include <tuple>
#include <fstream>

using namespace vh;

struct Range { const unsigned char* b; size_t n; std::string name; };
static std::vector<Range> gRanges;
static std::string handleOf(const void* p){ auto q = (const unsigned char*)p; for(auto& r : gRanges) if(q >= r.b && q < r.b + r.n) return r.name; return "?"; }
struct TaskRec { long id; int prio; std::vector<std::pair<std::string,int>> deps; std::set<std::string> rd, wr; };
static std::vector<TaskRec> gTasks; static long gCur = -1;
static void hookSubmit(const mockomp::Task& t){ TaskRec r; r.id = t.id; r.prio = t.priority; for(auto& d : t.deps) r.deps.push_back({handleOf(d.addr), d.mode}); gTasks.push_back(r); }
static void hookStart(long id, int w){ gCur = id; ctx<Dim>().curTask = id; ctx<Dim>().curWorker = w; }
static void hookEnd(long){ gCur = -1; ctx<Dim>().curTask = -1; ctx<Dim>().curWorker = 0; }
static void hookTouch(const void* p, bool w){ if(gCur >= 0 && gCur < (long)gTasks.size()){ auto h = handleOf(p); (w ? gTasks[gCur].wr : gTasks[gCur].rd).insert(h); } }

using Canon = std::vector<std::vector<long>>;
static Canon canon(const BagT& b){ Canon c; for(long i = 0; i < b.n; ++i){ std::vector<long> e{b.e[i].pid}; for(long d = 0; d < Dim; ++d) e.push_back(b.e[i].d[d]); e.push_back(b.e[i].mult); c.push_back(e); } std::sort(c.begin(), c.end()); return c; }
struct Snapshot { std::map<std::pair<long,long>, Canon> mp, lo; std::map<long, Canon> rhs; };

template <class T> static void addRanges(T& tree, long height, const std::string& pre, bool mp, bool lo, bool rhs){
    for(long l = 0; l < height; ++l){ auto& gs = tree.getCellGroupsAtLevel(l); for(size_t g = 0; g < gs.size(); ++g){
        gRanges.push_back({gs[g].getDataPtr(), (size_t)gs[g].getDataSize(), pre + "cd." + std::to_string(l) + "." + std::to_string(g)});      // symbolic data of the cell group
        if(mp) gRanges.push_back({gs[g].getMultipolePtr(), (size_t)gs[g].getMultipoleSize(), pre + "mp." + std::to_string(l) + "." + std::to_string(g)});
        if(lo) gRanges.push_back({gs[g].getLocalPtr(), (size_t)gs[g].getLocalSize(), pre + "lo." + std::to_string(l) + "." + std::to_string(g)}); } }
    auto& pg = tree.getParticleGroups(); for(size_t g = 0; g < pg.size(); ++g){
        gRanges.push_back({pg[g].getDataPtr(), (size_t)pg[g].getDataSize(), pre + "pd." + std::to_string(g)});
        if(rhs) gRanges.push_back({pg[g].getRhsPtr(), (size_t)pg[g].getRhsSize(), pre + "pr." + std::to_string(g)}); }
}
template <bool MP, bool LO, class T> static void snapCells(T& tree, long height, Snapshot& s){
    for(long l = 0; l < height; ++l) for(auto& g : tree.getCellGroupsAtLevel(l)) for(long i = 0; i < g.getNbCells(); ++i){
        if constexpr(MP) s.mp[{l, (long)g.getCellSpacialIndex(i)}] = canon(g.getCellMultipole(i));
        if constexpr(LO) s.lo[{l, (long)g.getCellSpacialIndex(i)}] = canon(g.getCellLocal(i)); }
}
template <class T> static void snapRhs(T& tree, Snapshot& s){ tree.applyToAllLeaves([&](auto&& h, const long* idx, auto, auto rhs){ for(long i = 0; i < h.nbParticles; ++i) s.rhs[idx[i]] = canon(rhs[0][i]); }); }

struct Sched { mockomp::Strategy st; int threads; mockomp::WorkerPolicy wp; unsigned long seed; bool scrub; const char* name; };

// static sufficient condition for race freedom on the recorded graph (the same definition as TaskRuntime!Covered)
static void checkCovered(Report& rep, const std::string& key){
    const size_t n = gTasks.size();
    std::vector<std::vector<char>> ord(n, std::vector<char>(n, 0));
    auto declConf = [](const TaskRec& a, const TaskRec& b, bool& mutex){ bool c = false; for(auto& x : a.deps) for(auto& y : b.deps) if(x.first == y.first){ if(x.second == mockomp::MUTEX && y.second == mockomp::MUTEX) mutex = true; else if(!(x.second == mockomp::IN && y.second == mockomp::IN)) c = true; } return c; };
    std::vector<std::vector<char>> mtx(n, std::vector<char>(n, 0));
    for(size_t b = 0; b < n; ++b) for(size_t a = 0; a < b; ++a){ bool m = false; if(declConf(gTasks[a], gTasks[b], m)) ord[a][b] = 1; if(m){ mtx[a][b] = mtx[b][a] = 1; } }
    for(size_t k = 0; k < n; ++k) for(size_t a = 0; a < k; ++a) if(ord[a][k]) for(size_t b = k + 1; b < n; ++b) if(ord[k][b]) ord[a][b] = 1;
    for(size_t b = 0; b < n; ++b) for(size_t a = 0; a < b; ++a){
        std::string h; bool conf = false;
        for(auto& w : gTasks[a].wr) if(gTasks[b].rd.count(w) || gTasks[b].wr.count(w)){ conf = true; h = w; }
        for(auto& w : gTasks[b].wr) if(gTasks[a].rd.count(w)){ conf = true; h = w; }
        if(!conf) continue;
        rep.checks++;
        if(!(ord[a][b] || mtx[a][b])) rep.mismatch("Covered", key, "tasks " + std::to_string(a) + " and " + std::to_string(b) + " both access " + h + " (at least one writes) but are neither ordered nor mutually exclusive by the declared dependences");
    }
    for(auto& t : gTasks){ for(auto& d : t.deps) rep.ok("Covered", key, d.first != "?", "a declared dependence designates no group buffer of the tree");
                           for(auto& h : t.wr) rep.ok("Covered", key, h != "?", "a task writes outside every group buffer"); }
}
static void dumpGraph(FILE* f, const std::string& key){
    static const char* mode[] = {"in", "out", "mutex"};
    fprintf(f, "{\"e\":\"Graph\",\"key\":\"%s\",\"n\":%zu}\n", key.c_str(), gTasks.size());
    for(auto& t : gTasks){
        fprintf(f, "{\"e\":\"Task\",\"t\":%ld,\"prio\":%d,\"deps\":[", t.id + 1, t.prio);
        for(size_t k = 0; k < t.deps.size(); ++k) fprintf(f, "%s[\"%s\",\"%s\"]", k ? "," : "", t.deps[k].first.c_str(), mode[t.deps[k].second]);
        fprintf(f, "],\"rd\":["); bool first = true; for(auto& h : t.rd){ fprintf(f, "%s\"%s\"", first ? "" : ",", h.c_str()); first = false; }
        fprintf(f, "],\"wr\":["); first = true; for(auto& h : t.wr){ fprintf(f, "%s\"%s\"", first ? "" : ",", h.c_str()); first = false; }
        fprintf(f, "]}\n");
    }
}

int main(int argc, char** argv){
    installCrashHandlers();
    const bool thorough = argc > 1 && std::string(argv[1]) == "thorough";
    const char* gdir = getenv("VERIF_GRAPH_FILE"); FILE* gfile = gdir ? fopen(gdir, "w") : nullptr; long graphsLeft = getenv("VERIF_GRAPHS") ? atol(getenv("VERIF_GRAPHS")) : 0;
    const long maxGraphTasks = getenv("VERIF_GRAPH_MAXTASKS") ? atol(getenv("VERIF_GRAPH_MAXTASKS")) : 1000;
    const long graphEvery = getenv("VERIF_GRAPH_EVERY") ? atol(getenv("VERIF_GRAPH_EVERY")) : 1;
    std::vector<Sched> scheds = {
        {mockomp::IMMEDIATE, 1, mockomp::W_ZERO, 1, false, "immediate-1"},
        {mockomp::FIFO, 4, mockomp::W_ROUNDROBIN, 1, true, "deferred-fifo-4"},
        {mockomp::LIFO, 3, mockomp::W_RANDOM, 2, true, "deferred-lifo-3"},
        {mockomp::RANDOM, 16, mockomp::W_RANDOM, 3, true, "deferred-random-16"},
        {mockomp::PRIO_INVERTED, 2, mockomp::W_LAST, 4, true, "deferred-prioinv-2"},
        {mockomp::RANDOM, 7, mockomp::W_ROUNDROBIN, 5, true, "deferred-random-7"} };
    if(thorough) for(unsigned long s = 10; s < 18; ++s) scheds.push_back({mockomp::RANDOM, (int)(1 + s % 16), mockomp::W_RANDOM, s, true, "deferred-random-x"});
    // explicit schedules generated by TLC from spec/TaskRuntime.tla (spec -> code): lines "<scenario key> <n> <t1> ... <tn>" (1-based task numbers)
    std::map<std::string, std::vector<std::vector<long>>> explicitScheds;
    if(const char* sf = getenv("VERIF_SCHEDULES")){ std::ifstream in(sf); std::string l; while(std::getline(in, l)){ std::istringstream is(l); std::string k; long n; if(!(is >> k >> n)) continue; std::vector<long> o(n); for(auto& x : o){ is >> x; x -= 1; } explicitScheds[k].push_back(o); } }
    Report rep; std::string line; Rec r; long lineNo = 0; long tlcReplayed = 0; long eligible = 0;
    auto& RT = mockomp::rt();
    RT.onSubmit = hookSubmit; RT.onTaskStart = hookStart; RT.onTaskEnd = hookEnd;
    while(std::getline(std::cin, line)){
        if(!r.parse(line)) continue;
        Scn s; s.parse(r); lineNo++;
        static std::string keyHolder; keyHolder = s.key; gCrashKey = keyHolder.c_str();
        rep.scenarios++;
        // ---- 1. sequential reference
        Snapshot ref; long refCnt[7];
        {
            Replayer R(rep, s); R.makeInputs(s.sparts, R.spos, R.sSpec, R.sInputOf);
            if(s.mode) R.makeInputs(s.tparts, R.tpos, R.tSpec, R.tInputOf); else { R.tpos = R.spos; R.tSpec = R.sSpec; R.tInputOf = R.sInputOf; }
            R.setupContext(); ctx<Dim>().rep = nullptr; ctx<Dim>().touch = nullptr; gPhase = "sequential reference";
            RT.strategy = mockomp::IMMEDIATE; RT.nthreads = 1; RT.reset();
            if(s.mode == 0){ Tree tree(R.conf, R.spos, s.bs, s.ogpp != 0); R.registerCells<true,true>(tree);
                TbfAlgorithm<Real, Kern, Space> algo(R.conf, s.stop);
                for(const Op& op : opsOf(s.hist)){ if(op.kind == 0) algo.execute(tree, op.arg);
                    else if(op.kind == 3){ if constexpr(Per){ TbfAlgorithmPeriodicTopTree<Real, Kern, BagT, BagT, Space> top(R.conf, s.above); top.execute(tree); } } }
                snapCells<true,true>(tree, s.height, ref); snapRhs(tree, ref); }
            else { TreeTsm tree(R.conf, R.spos, R.tpos, s.bs, s.ogpp != 0); SrcView S{tree}; TgtView T{tree}; R.registerCells<true,false>(S); R.registerCells<false,true>(T);
                TbfAlgorithmTsm<Real, Kern, Space> algo(R.conf, s.stop);
                for(const Op& op : opsOf(s.hist)){ if(op.kind == 0) algo.execute(tree, op.arg);
                    else if(op.kind == 3){ if constexpr(Per){ TbfAlgorithmPeriodicTopTreeTsm<Real, Kern, BagT, BagT, Space> top(R.conf, s.above); top.execute(tree); } } }
                snapCells<true,false>(S, s.height, ref); snapCells<false,true>(T, s.height, ref); snapRhs(T, ref); }
            for(int k = 0; k < 7; ++k) refCnt[k] = ctx<Dim>().counters[k];
        }
        // ---- 2. the task executor under every schedule
        std::vector<TaskRec> savedTasks; std::vector<std::vector<long>> runOrders;
        std::vector<Sched> todo = scheds; std::vector<std::vector<long>> todoOrders(scheds.size());
        if(explicitScheds.count(s.key)) for(auto& o : explicitScheds[s.key]){ todo.push_back({mockomp::EXPLICIT, 5, mockomp::W_RANDOM, 77 + todo.size(), true, "tlc-schedule"}); todoOrders.push_back(o); tlcReplayed++; }
        for(size_t si = 0; si < todo.size(); ++si){
            const Sched& sc = todo[si]; RT.explicitOrder = todoOrders[si]; RT.explicitWorkers.clear();
            const std::string key = s.key + "-" + sc.name + "-seed" + std::to_string(sc.seed);
            static std::string kh2; kh2 = key; gCrashKey = kh2.c_str();
            Replayer R(rep, s); R.makeInputs(s.sparts, R.spos, R.sSpec, R.sInputOf);
            if(s.mode) R.makeInputs(s.tparts, R.tpos, R.tSpec, R.tInputOf); else { R.tpos = R.spos; R.tSpec = R.sSpec; R.tInputOf = R.sInputOf; }
            R.setupContext(); ctx<Dim>().scen = key; ctx<Dim>().touch = hookTouch;
            RT.strategy = sc.st; RT.nthreads = sc.threads; RT.wpolicy = sc.wp; RT.seed = sc.seed; RT.scrub = sc.scrub; RT.reset();
            gRanges.clear(); gTasks.clear();
            Snapshot got; long cnt[7] = {0,0,0,0,0,0,0}; long nk = 0;
            gPhase = "task executor";
            if(s.mode == 0){
                Tree tree(R.conf, R.spos, s.bs, s.ogpp != 0); R.registerCells<true,true>(tree); addRanges(tree, s.height, "", true, true, true);
#if RUNTIMEV != 2     // (a StarPU runtime fixes its worker count at starpu_init: nothing to vary there)
                RT.nthreads = 1 + (int)(lineNo % 2);      // the executor is built while fewer threads are available than at execution time
#endif
                TaskAlgo<Real, CKern, Space> algo(R.conf, s.stop);
                RT.nthreads = sc.threads;
                for(const Op& op : opsOf(s.hist)){ if(op.kind == 0){ Replayer::Hashes a, b; R.hashTree<true,true,true>(tree, a); algo.execute(tree, op.arg); R.hashTree<true,true,true>(tree, b); R.checkWriteSet(a, b, op.arg); }
                    else if(op.kind == 3){ if constexpr(Per){ TbfAlgorithmPeriodicTopTree<Real, Kern, BagT, BagT, Space> top(R.conf, s.above); top.execute(tree); } } }
                snapCells<true,true>(tree, s.height, got); snapRhs(tree, got);
                Replayer::getCounters(algo, cnt); algo.applyToAllKernels([&](const auto&){ nk++; });
                rep.ok("WorkerKernelBound", key, nk >= sc.threads, "fewer kernel copies than worker threads");
                if(s.hist != 11 && s.hist != 12) for(int k = 0; k < 7; ++k) rep.eq("Counters", key, cnt[k], refCnt[k], "merged per-worker counters vs the sequential kernel's count (operator " + std::to_string(k) + ")");
            } else {
                TreeTsm tree(R.conf, R.spos, R.tpos, s.bs, s.ogpp != 0); SrcView S{tree}; TgtView T{tree}; R.registerCells<true,false>(S); R.registerCells<false,true>(T);
                addRanges(S, s.height, "s", true, false, false); addRanges(T, s.height, "t", false, true, true);
#if RUNTIMEV != 2
                RT.nthreads = 1 + (int)(lineNo % 2);
#endif
                TaskAlgoTsm<Real, CKern, Space> algo(R.conf, s.stop);
                RT.nthreads = sc.threads;
                for(const Op& op : opsOf(s.hist)){ if(op.kind == 0) algo.execute(tree, op.arg);
                    else if(op.kind == 3){ if constexpr(Per){ TbfAlgorithmPeriodicTopTreeTsm<Real, Kern, BagT, BagT, Space> top(R.conf, s.above); top.execute(tree); } } }
                { long nkt = 0; algo.applyToAllKernels([&](const auto&){ nkt++; }); rep.ok("WorkerKernelBound", key, nkt >= sc.threads, "fewer kernel copies than worker threads"); }
                snapCells<true,false>(S, s.height, got); snapCells<false,true>(T, s.height, got); snapRhs(T, got);
                for(int k = 0; k < 7; ++k) rep.eq("Counters", key, ctx<Dim>().counters[k], refCnt[k], "kernel call counts vs the sequential executor (operator " + std::to_string(k) + ")");
                Replayer::getCounters(algo, cnt);
                if(s.hist != 11 && s.hist != 12) for(int k = 0; k < 7; ++k) rep.eq("Counters", key, cnt[k], refCnt[k], "merged per-worker counters (target/source executor) vs the sequential kernel's count (operator " + std::to_string(k) + ")");
            }
#if RUNTIMEV == 2
            rep.ok("RuntimeApi", key, mockstarpu::st().error.empty(), "StarPU API misuse: " + mockstarpu::st().error);
            rep.ok("RuntimeApi", key, mockstarpu::st().registered == mockstarpu::st().unregistered, "data handles registered (" + std::to_string(mockstarpu::st().registered) + ") and unregistered (" + std::to_string(mockstarpu::st().unregistered) + ") differ after execute()");
            mockstarpu::st().error.clear();
#endif
            gPhase = "comparison";
            for(auto& kw : ctx<Dim>().kernelWorkers) rep.ok("KernelPerWorker", key, kw.second.size() <= 1, "one kernel copy was used by tasks running on " + std::to_string(kw.second.size()) + " different workers (per-worker state would race)");
            if(!RT.error.empty()){ printf("HARNESS-ERROR mock runtime: %s (%s)\n", RT.error.c_str(), key.c_str()); return 2; }
            long unrun = 0; for(auto& t : RT.tasks) if(!t.done) unrun++;
            if(unrun){ printf("HARNESS-ERROR mock runtime: %ld tasks never run (%s)\n", unrun, key.c_str()); return 2; }
            rep.ok("SameAsSequential", key, got.mp == ref.mp, "multipoles differ from the sequential executor's");
            rep.ok("SameAsSequential", key, got.lo == ref.lo, "locals differ from the sequential executor's");
            rep.ok("SameAsSequential", key, got.rhs == ref.rhs, "particle results differ from the sequential executor's");
            if(si == 1){ checkCovered(rep, key); savedTasks = gTasks; }
            std::vector<long> ord; for(auto& pr : RT.runLog) ord.push_back(pr.first + 1);
            runOrders.push_back(ord);
        }
        if(gfile && graphsLeft > 0 && (long)savedTasks.size() <= maxGraphTasks && savedTasks.size() >= 2 && (eligible++ % graphEvery) == 0){
            gTasks = savedTasks; dumpGraph(gfile, s.key);
            for(auto& o : runOrders) if(o.size() == savedTasks.size()) fprintf(gfile, "{\"e\":\"Run\",\"order\":%s}\n", listStr(o).c_str());
            graphsLeft--; }
    }
    if(gfile) fclose(gfile);
    RT.reset();
    printf("INFO tlcSchedulesReplayed=%ld\n", tlcReplayed);
    return rep.finish("replay_omp");
}
