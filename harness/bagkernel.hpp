// The symbolic ("bag") kernel of the conformance harness: the C++ twin of the kernel specified in
// spec/Fmm.tla.  A contribution is (source particle id, integer displacement in half-leaf units from the
// holder's centre to the centre of the source's leaf, multiplicity).  Every operator translates
// contributions USING THE ARGUMENTS THE LIBRARY PASSES (level, child codes, base-7 / base-3 codes), so a
// wrong level, a permuted code or a mis-signed offset changes the result.  Codes are decoded by the
// harness's own arithmetic, never by the library's helpers (those are under test in C11).
//
// Besides computing, every callback (a) checks the geometric consistency of its arguments (C02) against
// the registry of true cell identities (keyed by the address of the expansion objects) and of input
// particles, and (b) records the elementary interactions it performs.
#ifndef VERIF_BAGKERNEL_HPP
#define VERIF_BAGKERNEL_HPP
#include "hcommon.hpp"
#include "utils/tbfperiodicshifter.hpp"
#include <unordered_map>
#include <cmath>
#include <cstdint>
#include <unistd.h>

namespace vh {

template <long Dim, int CAP>
struct Bag {
    static_assert(CAP % 8 == 0, "capacity must be a multiple of 8 so that sizeof(Bag) is a multiple of 64 without alignas");
    struct Entry { long pid; long d[Dim]; long mult; };
    long n; long pad[7];
    Entry e[CAP];
    void add(long pid, const long* d, long mult){
        for(long i = 0; i < n; ++i){ bool same = e[i].pid == pid; for(long k = 0; k < Dim && same; ++k) same = e[i].d[k] == d[k]; if(same){ e[i].mult += mult; return; } }
        if(n >= CAP){ fprintf(stderr, "HARNESS-ERROR: bag overflow (capacity %d)\n", CAP); fflush(stderr); _exit(2); }
        e[n].pid = pid; for(long k = 0; k < Dim; ++k) e[n].d[k] = d[k]; e[n].mult = mult; n++;
    }
    void addShifted(const Bag& o, const long* t, long sign){
        for(long i = 0; i < o.n; ++i){ long d[Dim]; for(long k = 0; k < Dim; ++k) d[k] = o.e[i].d[k] + sign * t[k]; add(o.e[i].pid, d, o.e[i].mult); }
    }
    long sumMult() const { long s = 0; for(long i = 0; i < n; ++i) s += e[i].mult; return s; }
    // same digest as Fmm!BagDigest; specPid maps the input index held in the bag to the particle id of the specification (1-based)
    long digest(const std::vector<long>& specPid) const { long s = 0; for(long i = 0; i < n; ++i){ long w = specPid[e[i].pid] * 7; for(long k = 0; k < Dim; ++k) w += e[i].d[k] * (k + 2); s += e[i].mult * w; } return s; }
    bool isZeroBytes() const { const unsigned char* p = reinterpret_cast<const unsigned char*>(this); for(size_t i = 0; i < sizeof(*this); ++i) if(p[i]) return false; return true; }
};

struct CellId { long level; long index; };

// elementary interaction: op 1 P2M, 2 M2M, 3 M2L, 4 L2L, 5 L2P, 6 P2P, 7 P2PInner (fields as in Fmm.tla)
struct Elem { int op; long a, b, c, d; };
inline long elemHash(const Elem& e){
    switch(e.op){
    case 1: case 5: case 7: return e.op * 1009 + e.a * 31;
    case 6: return e.op * 1009 + e.a * 31 + e.b * 17 + e.c * 7;
    default: return e.op * 1009 + e.a * 101 + e.b * 31 + e.c * 17 + e.d * 7;
    }
}

// Everything the kernel needs to know about the scenario under test (one global: kernels are copied by the executors)
template <long Dim>
struct Context {
    long height = 0;          // height of the REAL tree (levels 0..height-1)
    bool periodic = false;
    double halfLeaf[Dim];     // half leaf width of the real tree per dimension
    double corner[Dim];       // box corner
    Report* rep = nullptr;
    std::string scen;         // scenario key for reports
    // registries
    std::unordered_map<const void*, CellId> mpOf, loOf;          // expansion object -> true identity
    std::unordered_map<const void*, int> mpTree, loTree;          // 0 = source/only tree, 1 = target tree
    std::vector<std::vector<double>> inputData[2];               // [tree][pid][value] as inserted
    long nbData = 0;
    // recording
    std::vector<Elem> elems;
    long kernelCalls = 0;
    bool recordTrace = false; FILE* trace = nullptr; long curTask = -1; long curWorker = 0;
    long counters[7] = {0,0,0,0,0,0,0};
    std::map<const void*, std::set<long>> kernelWorkers;        // kernel object -> worker ids that used it inside tasks
    void useKernel(const void* k){ kernelCalls++; if(curTask >= 0) kernelWorkers[k].insert(curWorker); }
    void (*touch)(const void* obj, bool write) = nullptr;      // access recorder of the task-graph drivers
    void tch(const void* p, bool w){ if(touch) touch(p, w); }
    void resetRecording(){ elems.clear(); kernelWorkers.clear(); kernelCalls = 0; for(auto& c : counters) c = 0; }
    long elemDigest() const { long s = 0; for(auto& e : elems) s = (s + elemHash(e)) % 1000003; return s; }
    void arg(bool cond, const char* what){ if(rep) rep->ok("Arg", scen, cond, what); }
    void shiftck(bool cond, const char* what){ if(rep) rep->ok("Shift", scen, cond, what); }
};

template <long Dim> inline Context<Dim>& ctx(){ static Context<Dim> c; return c; }

// own Morton arithmetic (dimension 0 most significant inside each bit group)
template <long Dim> inline std::array<long,Dim> mortonCoord(long m, long level){
    std::array<long,Dim> c; c.fill(0);
    for(long b = 0; b < level; ++b) for(long d = 0; d < Dim; ++d) c[d] |= ((m >> (b * Dim + (Dim - 1 - d))) & 1L) << b;
    return c;
}
template <long Dim> inline long mortonIndex(const std::array<long,Dim>& c, long level){
    long m = 0; for(long b = 0; b < level; ++b) for(long d = 0; d < Dim; ++d) m |= ((c[d] >> b) & 1L) << (b * Dim + (Dim - 1 - d));
    return m;
}

template <class RealType_T, class SpaceIndexType_T, int CAP>
class BagKernel {
public:
    using RealType = RealType_T;
    using SpaceIndexType = SpaceIndexType_T;
    static constexpr long Dim = SpaceIndexType::Dim;
    using SpacialConfiguration = TbfSpacialConfiguration<RealType, Dim>;
    using BagT = Bag<Dim, CAP>;
private:
    long wl0[Dim];      // width of the level-0 cell of THIS kernel's configuration, in half-leaf units of the real tree
    long cfgHeight;
    long W(long level, long d) const { return wl0[d] >> level; }
    bool levelOk(long level) const { return level >= 0 && level < cfgHeight + 8 && (wl0[0] >> level) >= 1; }
    void tchild(long level, long code, long* t) const { for(long d = 0; d < Dim; ++d){ const long bit = (code >> (Dim - 1 - d)) & 1; t[d] = (bit ? 1 : -1) * (W(level, d) / 4); } }
    static void dec(long code, long base, long shift, long* out){ for(long d = Dim - 1; d >= 0; --d){ out[d] = (code % base) - shift; code /= base; } }
    template <class Symb> static std::array<long,Dim> coordOf(const Symb& s){ std::array<long,Dim> c; for(long d = 0; d < Dim; ++d) c[d] = s.boxCoord[d]; return c; }
    // particles handed to a leaf operator: inside the leaf box, original index, unmodified data
    template <class Symb, class Parts>
    void checkParticles(const Symb& s, const long idx[], const Parts& parts, long n, int tree) const {
        auto& C = ctx<Dim>();
        C.arg(n >= 1, "leaf operator called with no particle");
        const long side = 1L << (C.height - 1);
        bool coordOk = true; for(long d = 0; d < Dim; ++d) coordOk = coordOk && s.boxCoord[d] >= 0 && s.boxCoord[d] < side;
        C.arg(coordOk, "leaf box coordinate outside the grid");
        C.arg(mortonIndex<Dim>(coordOf(s), C.height - 1) == (long)s.spaceIndex, "leaf header: index and box coordinate disagree");
        for(long i = 0; i < n; ++i){
            const long pid = idx[i];
            if(pid < 0 || pid >= (long)C.inputData[tree].size()){ C.arg(false, "particle index outside the input array"); continue; }
            bool bits = true, inside = true;
            for(long v = 0; v < C.nbData; ++v){ const double x = static_cast<double>(parts[v][i]); if(std::memcmp(&x, &C.inputData[tree][pid][v], sizeof(double)) != 0) bits = false; }
            for(long d = 0; d < Dim; ++d){
                const double lo = C.corner[d] + 2 * C.halfLeaf[d] * double(s.boxCoord[d]), hi = lo + 2 * C.halfLeaf[d];
                const double x = static_cast<double>(parts[d][i]);
                if(!(x >= lo && x <= hi)) inside = false;
            }
            C.arg(bits, "particle data handed to the operator differ from the inserted values");
            C.arg(inside, "particle handed to a leaf operator lies outside that leaf's box");
        }
    }
    // periodic mode: what a position-based kernel does with a neighbour reached across a face (src/utils/tbfperiodicshifter.hpp), on the
    // leaf headers the library passes: the shift must be the image number of Grid!ImageOf times the box width, and the shifted copies of the
    // source particles must lie in the box of the leaf at (target + decoded offset)
    template <class SymbS, class SymbT, class PartsS>
    void checkShift(const SymbS& sSrc, const SymbT& sTgt, long code, const PartsS& pSrc, long nSrc) const {
        if constexpr(SpaceIndexType::IsPeriodic){
            auto& C = ctx<Dim>();
            long p3 = 1; for(long d = 0; d < Dim; ++d) p3 *= 3;
            if(code < 0 || code >= p3) return;      // reported by the offset check
            using Shifter = typename TbfPeriodicShifter<RealType, SpaceIndexType>::Neighbor;
            long off[Dim], img[Dim]; dec(code, 3, 1, off);
            const long side = 1L << (C.height - 1); bool imgOk = true, any = false;
            for(long d = 0; d < Dim; ++d){ const long k = sTgt.boxCoord[d] + off[d] - sSrc.boxCoord[d]; if(k % side != 0 || k / side < -1 || k / side > 1) imgOk = false; img[d] = k / side; any = any || img[d] != 0; }
            if(!imgOk) return;                       // reported by the offset check
            C.shiftck(Shifter::NeedToShift(sSrc, sTgt, spaceSys, code) == any, "TbfPeriodicShifter::NeedToShift disagrees with the image of the neighbour");
            const auto coef = Shifter::GetShiftCoef(sSrc, sTgt, spaceSys, code);
            bool coefOk = true; for(long d = 0; d < Dim; ++d) coefOk = coefOk && coef[d] == RealType(img[d]) * spaceSys.getConfiguration().getBoxWidths()[d];
            C.shiftck(coefOk, "TbfPeriodicShifter::GetShiftCoef is not image * box width");
            const auto dup = Shifter::DuplicatePositionsAndApplyShift(sSrc, sTgt, spaceSys, code, pSrc, nSrc);
            bool inside = true, rest = true;
            for(long i = 0; i < nSrc; ++i){
                for(long d = 0; d < Dim; ++d){
                    const double lo = C.corner[d] + 2 * C.halfLeaf[d] * double(sTgt.boxCoord[d] + off[d]), hi = lo + 2 * C.halfLeaf[d];
                    const double x = static_cast<double>(dup[d][i]);
                    if(!(x >= lo && x <= hi)) inside = false;
                }
                for(long v = Dim; v < (long)dup.size(); ++v) if(std::memcmp(&dup[v][i], &pSrc[v][i], sizeof(dup[v][i])) != 0) rest = false;
            }
            C.shiftck(inside, "periodic image: the shifted copy of a source particle does not lie in the box of the leaf at target + offset");
            C.shiftck(rest, "periodic image: values beyond the coordinates were altered by the shifted copy");
            Shifter::FreePositions(dup);
        }
    }
    SpaceIndexType spaceSys;
public:
    explicit BagKernel(const SpacialConfiguration& conf) : spaceSys(conf) {
        auto& C = ctx<Dim>();
        for(long d = 0; d < Dim; ++d) wl0[d] = std::lround(double(conf.getBoxWidths()[d]) / C.halfLeaf[d]);
        cfgHeight = conf.getTreeHeight();
    }
    BagKernel(const BagKernel&) = default;

    template <class Symb, class Parts, class Leaf>
    void P2M(const Symb& s, const long int idx[], const Parts& parts, const long int n, Leaf& leaf) const {
        auto& C = ctx<Dim>(); C.useKernel(this); C.counters[0] += 1;
        checkParticles(s, idx, parts, n, 0);
        auto it = C.mpOf.find(&leaf);
        C.arg(it != C.mpOf.end() && it->second.level == C.height - 1 && it->second.index == (long)s.spaceIndex, "P2M: multipole is not the leaf cell named by the symbolic data");
        long z[Dim]; for(long d = 0; d < Dim; ++d) z[d] = 0;
        C.tch(parts[0], false); C.tch(&leaf, true);
        for(long i = 0; i < n; ++i) leaf.add(idx[i], z, 1);
        C.elems.push_back({1, (long)s.spaceIndex, 0, 0, 0});
        if(C.trace) fprintf(C.trace, "{\"e\":\"P2M\",\"t\":%ld,\"n\":%ld,\"task\":%ld,\"w\":%ld}\n", (long)s.spaceIndex, (long)n, C.curTask, C.curWorker);
    }

    template <class Symb, class Children, class Cell>
    void M2M(const Symb& s, const long int lvl, const Children& low, Cell& up, const long int pos[], const long int n) const {
        auto& C = ctx<Dim>(); C.useKernel(this); C.counters[1] += n;
        C.arg(n >= 1 && n <= (1L << Dim), "M2M: number of children out of range");
        C.arg(levelOk(lvl), "M2M: level out of range");
        auto pit = C.mpOf.find(&up);
        const bool virt = (pit == C.mpOf.end());     // periodic top tree: virtual cells are not in the registry
        if(!virt){ C.arg(pit->second.level == lvl, "M2M: level argument is not the level of the parent");
                   C.arg(pit->second.index == (long)s.spaceIndex, "M2M: symbolic data do not describe the parent"); }
        std::vector<long> srcs, codes;
        for(long i = 0; i < n; ++i){
            C.arg(pos[i] >= 0 && pos[i] < (1L << Dim), "M2M: child position code out of range");
            auto cit = C.mpOf.find(&low[i].get());
            if(cit != C.mpOf.end() && !virt){
                const CellId ch = cit->second;
                C.arg(ch.level == lvl + 1, "M2M: child is not one level below the parent");
                C.arg((ch.index >> Dim) == pit->second.index, "M2M: child is not a child of the given parent");
                const auto cc = mortonCoord<Dim>(ch.index, ch.level); long oct = 0; for(long d = 0; d < Dim; ++d) oct = oct * 2 + (cc[d] & 1);
                C.arg(oct == pos[i], "M2M: position code does not decode to the child's true octant");
                for(long j = 0; j < i; ++j) C.arg(&low[j].get() != &low[i].get(), "M2M: the same child handed twice");
                srcs.push_back(ch.index);
            } else if(cit != C.mpOf.end()){
                // periodic top tree, base step: real level-1 cells under the virtual box cell
                const CellId ch = cit->second;
                C.arg(ch.level == 1, "top-tree M2M: a real child that is not a level-1 cell");
                const auto cc = mortonCoord<Dim>(ch.index, ch.level); long oct = 0; for(long d = 0; d < Dim; ++d) oct = oct * 2 + (cc[d] & 1);
                C.arg(oct == pos[i], "top-tree M2M: position code does not decode to the level-1 cell's true octant");
                for(long j = 0; j < i; ++j) C.arg(&low[j].get() != &low[i].get(), "top-tree M2M: the same child handed twice");
                srcs.push_back(ch.index);
            } else srcs.push_back(-1);
            codes.push_back(pos[i]);
            C.tch(&low[i].get(), false); C.tch(&up, true);
            if(levelOk(lvl) && pos[i] >= 0 && pos[i] < (1L << Dim)){ long t[Dim]; tchild(lvl, pos[i], t); up.addShifted(low[i].get(), t, 1); }
            if(!virt) C.elems.push_back({2, (long)lvl, (long)s.spaceIndex, srcs.back(), (long)pos[i]});
        }
        if(C.trace){ fprintf(C.trace, "{\"e\":\"M2M\",\"l\":%ld,\"t\":%ld,\"virt\":%d,\"s\":%s,\"c\":%s,\"task\":%ld,\"w\":%ld}\n", (long)lvl, virt ? -1L : (long)s.spaceIndex, (int)virt, listStr(srcs).c_str(), listStr(codes).c_str(), C.curTask, C.curWorker); }
    }

    template <class Symb, class Sources, class Cell>
    void M2L(const Symb& s, const long int lvl, const Sources& src, const long int pos[], const long int n, Cell& out) const {
        auto& C = ctx<Dim>(); C.useKernel(this); C.counters[2] += n;
        C.arg(n >= 1, "M2L called with an empty source list");
        C.arg(levelOk(lvl), "M2L: level out of range");
        auto tit = C.loOf.find(&out);
        const bool virt = (tit == C.loOf.end());
        if(!virt){ C.arg(tit->second.level == lvl, "M2L: level argument is not the level of the target");
                   C.arg(tit->second.index == (long)s.spaceIndex, "M2L: symbolic data do not describe the target"); }
        std::vector<long> srcs, codes;
        long p7 = 1; for(long d = 0; d < Dim; ++d) p7 *= 7;
        for(long i = 0; i < n; ++i){
            const bool codeOk = pos[i] >= 0 && pos[i] < p7;
            C.arg(codeOk, "M2L: position code out of range");
            long off[Dim]; if(codeOk) dec(pos[i], 7, 3, off);
            auto sit = C.mpOf.find(&src[i].get());
            if(sit != C.mpOf.end() && !virt && codeOk){
                const CellId sc = sit->second;
                C.arg(sc.level == lvl, "M2L: source is not at the stated level");
                const auto tc = mortonCoord<Dim>(tit->second.index, lvl), scd = mortonCoord<Dim>(sc.index, sc.level);
                const long side = 1L << lvl; bool offOk = true, sep = false, parAdj = true;
                for(long d = 0; d < Dim; ++d){
                    long diff = scd[d] - tc[d];
                    if(C.periodic){ if(((off[d] - diff) % side) != 0) offOk = false; } else if(off[d] != diff) offOk = false;
                    if(std::labs(off[d]) > 1) sep = true;
                    const long sabs = tc[d] + off[d]; const long sp = (sabs >= 0 ? sabs / 2 : -((1 - sabs) / 2));
                    if(std::labs(sp - tc[d] / 2) > 1) parAdj = false;
                }
                C.arg(offOk, "M2L: source does not sit at the relative offset encoded by its position code");
                C.arg(sep, "M2L: source is adjacent to the target (not well separated)");
                C.arg(parAdj, "M2L: source's parent is not a neighbour of the target's parent");
                srcs.push_back(sc.index);
            } else if(sit != C.mpOf.end()){ srcs.push_back(sit->second.index); } else srcs.push_back(-1);
            codes.push_back(pos[i]);
            C.tch(&src[i].get(), false); C.tch(&out, true);
            if(levelOk(lvl) && codeOk){ long t[Dim]; for(long d = 0; d < Dim; ++d) t[d] = off[d] * W(lvl, d); out.addShifted(src[i].get(), t, 1); }
            if(!virt) C.elems.push_back({3, (long)lvl, (long)s.spaceIndex, srcs.back(), (long)pos[i]});
        }
        if(C.trace){ fprintf(C.trace, "{\"e\":\"M2L\",\"l\":%ld,\"t\":%ld,\"virt\":%d,\"s\":%s,\"c\":%s,\"task\":%ld,\"w\":%ld}\n", (long)lvl, virt ? -1L : (long)s.spaceIndex, (int)virt, listStr(srcs).c_str(), listStr(codes).c_str(), C.curTask, C.curWorker); }
    }

    template <class Symb, class Cell, class Children>
    void L2L(const Symb& s, const long int lvl, const Cell& up, Children& low, const long int pos[], const long int n) const {
        auto& C = ctx<Dim>(); C.useKernel(this); C.counters[3] += n;
        C.arg(n >= 1 && n <= (1L << Dim), "L2L: number of children out of range");
        C.arg(levelOk(lvl), "L2L: level out of range");
        auto pit = C.loOf.find(&up);
        const bool virt = (pit == C.loOf.end());
        if(!virt){ C.arg(pit->second.level == lvl, "L2L: level argument is not the level of the parent");
                   C.arg(pit->second.index == (long)s.spaceIndex, "L2L: symbolic data do not describe the parent"); }
        std::vector<long> srcs, codes;
        for(long i = 0; i < n; ++i){
            const bool codeOk = pos[i] >= 0 && pos[i] < (1L << Dim);
            C.arg(codeOk, "L2L: child position code out of range");
            auto cit = C.loOf.find(&low[i].get());
            if(cit != C.loOf.end() && !virt){
                const CellId ch = cit->second;
                C.arg(ch.level == lvl + 1, "L2L: child is not one level below the parent");
                C.arg((ch.index >> Dim) == pit->second.index, "L2L: child is not a child of the given parent");
                const auto cc = mortonCoord<Dim>(ch.index, ch.level); long oct = 0; for(long d = 0; d < Dim; ++d) oct = oct * 2 + (cc[d] & 1);
                C.arg(oct == pos[i], "L2L: position code does not decode to the child's true octant");
                for(long j = 0; j < i; ++j) C.arg(&low[j].get() != &low[i].get(), "L2L: the same child handed twice");
                srcs.push_back(ch.index);
            } else if(cit != C.loOf.end()){
                const CellId ch = cit->second;
                C.arg(ch.level == 1, "top-tree L2L: a real child that is not a level-1 cell");
                const auto cc = mortonCoord<Dim>(ch.index, ch.level); long oct = 0; for(long d = 0; d < Dim; ++d) oct = oct * 2 + (cc[d] & 1);
                C.arg(oct == pos[i], "top-tree L2L: position code does not decode to the level-1 cell's true octant");
                for(long j = 0; j < i; ++j) C.arg(&low[j].get() != &low[i].get(), "top-tree L2L: the same child handed twice");
                srcs.push_back(ch.index);
            } else srcs.push_back(-1);
            codes.push_back(pos[i]);
            C.tch(&up, false); C.tch(&low[i].get(), true);
            if(levelOk(lvl) && codeOk){ long t[Dim]; tchild(lvl, pos[i], t); low[i].get().addShifted(up, t, -1); }
            if(!virt) C.elems.push_back({4, (long)lvl, (long)s.spaceIndex, srcs.back(), (long)pos[i]});
        }
        if(C.trace){ fprintf(C.trace, "{\"e\":\"L2L\",\"l\":%ld,\"t\":%ld,\"virt\":%d,\"s\":%s,\"c\":%s,\"task\":%ld,\"w\":%ld}\n", (long)lvl, virt ? -1L : (long)s.spaceIndex, (int)virt, listStr(srcs).c_str(), listStr(codes).c_str(), C.curTask, C.curWorker); }
    }

    template <class Symb, class Leaf, class Parts, class Rhs>
    void L2P(const Symb& s, const Leaf& leaf, const long int idx[], const Parts& parts, Rhs& rhs, const long int n) const {
        auto& C = ctx<Dim>(); C.useKernel(this); C.counters[4] += 1;
        checkParticles(s, idx, parts, n, (int)C.inputData[1].size() ? 1 : 0);
        auto it = C.loOf.find(&leaf);
        C.arg(it != C.loOf.end() && it->second.level == C.height - 1 && it->second.index == (long)s.spaceIndex, "L2P: local is not the leaf cell named by the symbolic data");
        long z[Dim]; for(long d = 0; d < Dim; ++d) z[d] = 0;
        C.tch(&leaf, false); C.tch(parts[0], false); C.tch(rhs[0], true);
        for(long i = 0; i < n; ++i) rhs[0][i].addShifted(leaf, z, 1);
        C.elems.push_back({5, (long)s.spaceIndex, 0, 0, 0});
        if(C.trace) fprintf(C.trace, "{\"e\":\"L2P\",\"t\":%ld,\"n\":%ld,\"task\":%ld,\"w\":%ld}\n", (long)s.spaceIndex, (long)n, C.curTask, C.curWorker);
    }

    template <class Symb>
    void checkP2POffset(const Symb& sSrc, const Symb& sTgt, long code, bool allowSelf) const {
        auto& C = ctx<Dim>();
        long p3 = 1; for(long d = 0; d < Dim; ++d) p3 *= 3;
        const bool codeOk = code >= 0 && code < p3;
        C.arg(codeOk, "P2P: position code out of range");
        if(!codeOk) return;
        long off[Dim]; dec(code, 3, 1, off);
        const long side = 1L << (C.height - 1); bool offOk = true, nonzero = false;
        for(long d = 0; d < Dim; ++d){
            const long diff = sSrc.boxCoord[d] - sTgt.boxCoord[d];
            if(C.periodic){ if(((off[d] - diff) % side) != 0) offOk = false; } else if(off[d] != diff) offOk = false;
            if(off[d] != 0) nonzero = true;
        }
        C.arg(offOk, "P2P: source leaf does not sit at the relative offset encoded by its position code");
        C.arg(nonzero || allowSelf, "P2P: null offset between distinct leaves");
    }

    template <class Symb, class Parts, class Rhs>
    void P2P(const Symb& s1, const long int i1[], const Parts& p1, Rhs& r1, const long int n1,
             const Symb& s2, const long int i2[], const Parts& p2, Rhs& r2, const long int n2, const long code) const {
        auto& C = ctx<Dim>(); C.useKernel(this); C.counters[5] += n1 * n2;
        checkParticles(s1, i1, p1, n1, 0); checkParticles(s2, i2, p2, n2, 0);
        checkP2POffset(s1, s2, code, false);
        checkShift(s1, s2, code, p1, n1);
        C.tch(p1[0], false); C.tch(p2[0], false); C.tch(r1[0], true); C.tch(r2[0], true);
        long t[Dim], m[Dim]; dec(code, 3, 1, t); for(long d = 0; d < Dim; ++d){ t[d] *= 2; m[d] = -t[d]; }
        for(long i = 0; i < n2; ++i) for(long j = 0; j < n1; ++j) r2[0][i].add(i1[j], t, 1);     // the target sees its neighbour at +offset
        for(long j = 0; j < n1; ++j) for(long i = 0; i < n2; ++i) r1[0][j].add(i2[i], m, 1);     // mutual
        C.elems.push_back({6, (long)s2.spaceIndex, (long)s1.spaceIndex, (long)code, 0});
        if(C.trace) fprintf(C.trace, "{\"e\":\"P2P\",\"t\":%ld,\"s\":[%ld],\"c\":[%ld],\"task\":%ld,\"w\":%ld}\n", (long)s2.spaceIndex, (long)s1.spaceIndex, (long)code, C.curTask, C.curWorker);
    }

    template <class SymbS, class PartsS, class SymbT, class PartsT, class Rhs>
    void P2PTsm(const SymbS& s1, const long int i1[], const PartsS& p1, const long int n1,
                const SymbT& s2, const long int i2[], const PartsT& p2, Rhs& r2, const long int n2, const long code) const {
        auto& C = ctx<Dim>(); C.useKernel(this); C.counters[5] += n1 * n2;
        checkParticles(s1, i1, p1, n1, 0); checkParticles(s2, i2, p2, n2, 1);
        {   // offsets (source and target headers have different types)
            long p3 = 1; for(long d = 0; d < Dim; ++d) p3 *= 3;
            const bool codeOk = code >= 0 && code < p3; C.arg(codeOk, "P2PTsm: position code out of range");
            if(codeOk){ long off[Dim]; dec(code, 3, 1, off); const long side = 1L << (C.height - 1); bool offOk = true;
                for(long d = 0; d < Dim; ++d){ const long diff = s1.boxCoord[d] - s2.boxCoord[d];
                    if(C.periodic){ if(((off[d] - diff) % side) != 0) offOk = false; } else if(off[d] != diff) offOk = false; }
                C.arg(offOk, "P2PTsm: source leaf does not sit at the relative offset encoded by its position code"); }
        }
        checkShift(s1, s2, code, p1, n1);
        C.tch(p1[0], false); C.tch(p2[0], false); C.tch(r2[0], true);
        long t[Dim]; dec(code, 3, 1, t); for(long d = 0; d < Dim; ++d) t[d] *= 2;
        for(long i = 0; i < n2; ++i) for(long j = 0; j < n1; ++j) r2[0][i].add(i1[j], t, 1);
        C.elems.push_back({6, (long)s2.spaceIndex, (long)s1.spaceIndex, (long)code, 0});
        if(C.trace) fprintf(C.trace, "{\"e\":\"P2P\",\"t\":%ld,\"s\":[%ld],\"c\":[%ld],\"task\":%ld,\"w\":%ld}\n", (long)s2.spaceIndex, (long)s1.spaceIndex, (long)code, C.curTask, C.curWorker);
    }

    template <class Symb, class Parts, class Rhs>
    void P2PInner(const Symb& s, const long int idx[], const Parts& parts, Rhs& r, const long int n) const {
        auto& C = ctx<Dim>(); C.useKernel(this); C.counters[6] += n * n - n;
        checkParticles(s, idx, parts, n, 0);
        long z[Dim]; for(long d = 0; d < Dim; ++d) z[d] = 0;
        C.tch(parts[0], false); C.tch(r[0], true);
        for(long i = 0; i < n; ++i) for(long j = 0; j < n; ++j) if(i != j) r[0][i].add(idx[j], z, 1);
        C.elems.push_back({7, (long)s.spaceIndex, 0, 0, 0});
        if(C.trace) fprintf(C.trace, "{\"e\":\"P2PI\",\"t\":%ld,\"n\":%ld,\"task\":%ld,\"w\":%ld}\n", (long)s.spaceIndex, (long)n, C.curTask, C.curWorker);
    }
};

} // namespace vh
#endif
