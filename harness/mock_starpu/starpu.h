// API-compatible mock of the part of StarPU (starpu.h) that tbfmm's StarPU executors use.  Tasks inserted with
// starpu_insert_task are handed to the same controllable scheduler core as the OpenMP mock (mockomp.hpp):
// STARPU_R = in, STARPU_W / STARPU_RW = out, STARPU_RW|STARPU_COMMUTE = mutually exclusive unordered access.
// Data handles are (pointer, size) pairs; a codelet receives, as the real library does, an array of pointers to
// variable interfaces and the packed STARPU_VALUE arguments.
#ifndef VERIF_MOCK_STARPU_H
#define VERIF_MOCK_STARPU_H
#include "mockomp.hpp"
#include <cstdarg>
#include <cstdint>
#include <cstring>
#include <vector>
#include <memory>
#include <pthread.h>

struct starpu_variable_interface { uintptr_t ptr; size_t elemsize; };
struct _mock_starpu_data { starpu_variable_interface iface; bool registered; };
typedef _mock_starpu_data* starpu_data_handle_t;
enum starpu_data_access_mode { STARPU_NONE = 0, STARPU_R = 1, STARPU_W = 2, STARPU_RW = 3, STARPU_SCRATCH = 4, STARPU_REDUX = 8, STARPU_COMMUTE = 16 };
#define STARPU_MODE_SHIFT 17
#define STARPU_VALUE     (1 << STARPU_MODE_SHIFT)
#define STARPU_PRIORITY  (5 << STARPU_MODE_SHIFT)
#define STARPU_NAME      (19 << STARPU_MODE_SHIFT)
#define STARPU_MAIN_RAM 0
#define STARPU_CPU  (1u << 1)
#define STARPU_CUDA (1u << 3)
enum starpu_worker_archtype { STARPU_CPU_WORKER = 0, STARPU_CUDA_WORKER = 1 };
enum starpu_perfmodel_type { STARPU_PERFMODEL_INVALID = 0, STARPU_PER_ARCH, STARPU_COMMON, STARPU_HISTORY_BASED, STARPU_REGRESSION_BASED };
struct starpu_perfmodel { starpu_perfmodel_type type; const char* symbol; };
#define STARPU_NMAXBUFS 8
struct starpu_codelet {
    uint32_t where; void (*cpu_funcs[4])(void**, void*); void (*cuda_funcs[4])(void**, void*); unsigned cuda_flags[4];
    int nbuffers; starpu_data_access_mode modes[STARPU_NMAXBUFS]; starpu_perfmodel* model; const char* name; };
#define STARPU_VARIABLE_GET_PTR(x) (((starpu_variable_interface*)(x))->ptr)
#define STARPU_VARIABLE_GET_ELEMSIZE(x) (((starpu_variable_interface*)(x))->elemsize)

namespace mockstarpu {
    struct State { int initCount = 0; bool paused = false; long registered = 0, unregistered = 0; std::string error; };
    inline State& st(){ static State s; return s; }
    struct Packed { std::vector<unsigned char> bytes; std::vector<size_t> sizes; };
}
inline int starpu_init(void*){ mockstarpu::st().initCount++; mockstarpu::st().paused = false; return 0; }
inline void starpu_shutdown(){ mockstarpu::st().initCount--; }
inline void starpu_pause(){ mockstarpu::st().paused = true; }
inline void starpu_resume(){ mockstarpu::st().paused = false; }
inline int starpu_worker_get_id(){ return mockomp::rt().curThread; }
inline unsigned starpu_worker_get_count(){ return (unsigned)mockomp::rt().nthreads; }
inline unsigned starpu_cpu_worker_get_count(){ return (unsigned)mockomp::rt().nthreads; }
inline int starpu_worker_get_count_by_type(starpu_worker_archtype t){ return t == STARPU_CPU_WORKER ? mockomp::rt().nthreads : 0; }
inline void starpu_execute_on_each_worker(void (*func)(void*), void* arg, uint32_t /*where*/){
    auto& R = mockomp::rt(); const int saved = R.curThread;
    for(int w = 0; w < R.nthreads; ++w){ R.curThread = w; func(arg); }
    R.curThread = saved;
}
inline void starpu_variable_data_register(starpu_data_handle_t* h, int /*node*/, uintptr_t ptr, size_t size){
    *h = new _mock_starpu_data{{ptr, size}, true}; mockstarpu::st().registered++;
}
inline int starpu_data_acquire(starpu_data_handle_t h, starpu_data_access_mode){ if(!h || !h->registered) mockstarpu::st().error = "starpu_data_acquire on an unregistered handle"; return 0; }
inline void starpu_data_release(starpu_data_handle_t){}
inline void starpu_data_unregister(starpu_data_handle_t h){ if(!h || !h->registered){ mockstarpu::st().error = "starpu_data_unregister twice"; return; } h->registered = false; mockstarpu::st().unregistered++; delete h; }
inline int starpu_task_wait_for_all(){ mockomp::rt().wait(); return 0; }
inline void starpu_codelet_unpack_args(void* cl_arg, ...){
    auto* pk = static_cast<mockstarpu::Packed*>(cl_arg);
    va_list ap; va_start(ap, cl_arg); size_t off = 0;
    for(size_t i = 0; i < pk->sizes.size(); ++i){ void* dst = va_arg(ap, void*); if(!dst) break; std::memcpy(dst, pk->bytes.data() + off, pk->sizes[i]); off += pk->sizes[i]; }
    va_end(ap);
}
inline int starpu_insert_task(starpu_codelet* cl, ...){
    auto& R = mockomp::rt();
    if(mockstarpu::st().paused && false) mockstarpu::st().error = "task inserted while the runtime is paused";
    auto pk = std::make_shared<mockstarpu::Packed>();
    auto ifaces = std::make_shared<std::vector<starpu_variable_interface>>();
    mockomp::Task task; task.fn = nullptr; task.data = nullptr; task.priority = 0; task.id = (long)R.tasks.size();
    va_list ap; va_start(ap, cl);
    for(;;){
        const int a = va_arg(ap, int);
        if(a == 0) break;
        if(a == STARPU_VALUE){ void* p = va_arg(ap, void*); const size_t sz = va_arg(ap, size_t); const size_t o = pk->bytes.size(); pk->bytes.resize(o + sz); std::memcpy(pk->bytes.data() + o, p, sz); pk->sizes.push_back(sz); }
        else if(a == STARPU_PRIORITY){ task.priority = va_arg(ap, int); }
        else if(a == STARPU_NAME){ (void)va_arg(ap, const char*); }
        else if(a > 0 && a < (1 << STARPU_MODE_SHIFT)){
            starpu_data_handle_t h = va_arg(ap, starpu_data_handle_t);
            if(!h || !h->registered) mockstarpu::st().error = "task uses an unregistered data handle";
            ifaces->push_back(h->iface);
            int mode = mockomp::IN;
            if(a & STARPU_W){ mode = (a & STARPU_COMMUTE) ? mockomp::MUTEX : mockomp::OUT; }
            task.deps.push_back({(void*)h->iface.ptr, mode});
        } else { mockstarpu::st().error = "starpu_insert_task: unknown argument marker"; break; }
    }
    va_end(ap);
    if((int)ifaces->size() != cl->nbuffers) mockstarpu::st().error = "starpu_insert_task: number of handles differs from codelet.nbuffers";
    for(size_t i = 0; i < ifaces->size() && i < STARPU_NMAXBUFS; ++i){
        const int declared = cl->modes[i]; const int given = task.deps[i].mode == mockomp::IN ? STARPU_R : (task.deps[i].mode == mockomp::MUTEX ? (STARPU_RW | STARPU_COMMUTE) : STARPU_RW);
        if((declared & 3) != (given & 3)) mockstarpu::st().error = "starpu_insert_task: access mode differs from the codelet's declared mode";
    }
    auto fn = cl->cpu_funcs[0];
    task.call = [fn, pk, ifaces](){ void* bufs[STARPU_NMAXBUFS]; for(size_t i = 0; i < ifaces->size(); ++i) bufs[i] = &(*ifaces)[i]; fn(bufs, pk.get()); };
    R.tasks.push_back(std::move(task));
    if(R.onSubmit) R.onSubmit(R.tasks.back());
    if(R.strategy == mockomp::IMMEDIATE) R.runTask(R.tasks.size() - 1, R.pickWorker(R.executed));
    return 0;
}
#endif
