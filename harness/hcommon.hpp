// Common helpers of the conformance harness (no JSON library is available in C++:
// verif.py converts TLC's JSON lines into whitespace-separated integer records).
#ifndef VERIF_HCOMMON_HPP
#define VERIF_HCOMMON_HPP
#include <cstdio>
#include <cstdlib>
#include <cstring>
#include <string>
#include <vector>
#include <set>
#include <map>
#include <array>
#include <iostream>
#include <sstream>
#include <algorithm>

namespace vh {

// ---- integer record reader -------------------------------------------------
struct Rec {
    std::vector<long> v; size_t p = 0;
    bool parse(const std::string& line){
        v.clear(); p = 0; std::istringstream is(line); long x;
        while(is >> x) v.push_back(x);
        return !v.empty();
    }
    long get(){ if(p >= v.size()){ fprintf(stderr, "HARNESS-ERROR: record too short\n"); exit(2);} return v[p++]; }
    std::vector<long> getList(){ long n = get(); std::vector<long> r(n); for(auto& x : r) x = get(); return r; }
    bool done() const { return p >= v.size(); }
};

// ---- mismatch reporting ----------------------------------------------------
struct Report {
    long checks = 0, mismatches = 0, scenarios = 0;
    long maxPrinted = 40;
    std::map<std::string,long> byKind;
    // a mismatch line: MISMATCH kind=<kind> key=<key> <free text>
    void mismatch(const std::string& kind, const std::string& key, const std::string& text){
        mismatches++; byKind[kind]++;
        if(byKind[kind] <= maxPrinted){
            printf("MISMATCH kind=%s key=%s %s\n", kind.c_str(), key.c_str(), text.c_str());
        }
    }
    template <class A, class B>
    bool eq(const std::string& kind, const std::string& key, const A& observed, const B& expected, const std::string& what){
        checks++;
        if(!(observed == expected)){
            std::ostringstream os; os << what << " observed=" << observed << " expected=" << expected;
            mismatch(kind, key, os.str());
            return false;
        }
        return true;
    }
    bool ok(const std::string& kind, const std::string& key, bool cond, const std::string& what){
        checks++;
        if(!cond){ mismatch(kind, key, what); return false; }
        return true;
    }
    int finish(const char* tool){
        printf("SUMMARY tool=%s scenarios=%ld checks=%ld mismatches=%ld", tool, scenarios, checks, mismatches);
        for(auto& k : byKind) printf(" %s=%ld", k.first.c_str(), k.second);
        printf("\n");
        fflush(stdout);
        return mismatches ? 1 : 0;
    }
};

template <class T>
std::string listStr(const T& v){ std::ostringstream os; os << "["; bool f = true; for(auto& x : v){ if(!f) os << ","; os << x; f = false; } os << "]"; return os.str(); }

inline long ipow(long b, long e){ long r = 1; while(e-- > 0) r *= b; return r; }

} // namespace vh
#endif
