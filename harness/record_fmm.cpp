// code -> spec: records executions of the real executors on seeded random trees (larger than TLC can enumerate) as ndjson
// traces of kernel calls for validation by TLC against spec/FmmTrace.tla.
// usage: record_fmm <height> <seed> <nbExecutions> <maxParticles> <mode 0 single | 1 target/source>   (dimension / periodicity fixed at build time)
// executions alternate between the sequential executor, the target/source executor and the OpenMP executor under the
// mock runtime with a seeded random schedule.
#include "mockomp.hpp"
#include "fmmrun.hpp"
#include "algorithms/openmp/tbfopenmpalgorithm.hpp"
#include "algorithms/openmp/tbfopenmpalgorithmtsm.hpp"
#include <random>
using namespace vh;

int main(int argc, char** argv){
    if(argc < 5){ fprintf(stderr, "usage: record_fmm height seed nbExec maxParticles\n"); return 2; }
    const long H = atol(argv[1]); const unsigned long seed = strtoul(argv[2], nullptr, 10); const long nexec = atol(argv[3]); const long maxN = atol(argv[4]); const long modeArg = argc > 5 ? atol(argv[5]) : 0;
    std::mt19937_64 rng(seed * 1000003 + 17);
    Report rep; auto& RT = mockomp::rt();
    const long side = 1L << (H - 1);
    for(long ex = 0; ex < nexec; ++ex){
        Scn s; s.variant = (long)(rng() % 16); s.dim = Dim; s.height = H; s.periodic = Per; s.mode = modeArg;
        s.bs = 1 + (long)(rng() % 7); s.ogpp = rng() % 2; s.stop = Per ? 1 : (long)(rng() % 3); s.hist = 0; s.above = -1; s.ilo = -1; s.ihi = 1;
        auto gen = [&](long n){ std::vector<long> parts(n); std::array<long,Dim> c;
            for(long i = 0; i < n; ++i){ for(long d = 0; d < Dim; ++d){ c[d] = (long)(rng() % (unsigned long)side); if(i > 0 && rng() % 3 == 0){ c[d] = mortonCoord<Dim>(parts[i-1], H - 1)[d] + (long)(rng() % 3) - 1; if(c[d] < 0) c[d] = 0; if(c[d] >= side) c[d] = side - 1; } }
                parts[i] = mortonIndex<Dim>(c, H - 1); } return parts; };
        s.sparts = gen(1 + (long)(rng() % (unsigned long)maxN)); s.tparts = s.mode ? gen(1 + (long)(rng() % (unsigned long)maxN)) : s.sparts;
        s.key = "rec" + std::to_string(ex);
        Replayer R(rep, s); R.makeInputs(s.sparts, R.spos, R.sSpec, R.sInputOf);
        if(s.mode) R.makeInputs(s.tparts, R.tpos, R.tSpec, R.tInputOf); else { R.tpos = R.spos; R.tSpec = R.sSpec; R.tInputOf = R.sInputOf; }
        R.setupContext(); ctx<Dim>().rep = nullptr;
        // input order: spec pid q is inserted at R.sInputOf[q-1]; the trace lists leaves by spec pid
        printf("{\"e\":\"Init\",\"dim\":%ld,\"height\":%ld,\"periodic\":%s,\"mode\":%ld,\"stop\":%ld,\"bs\":%ld,\"ogpp\":%ld,\"exec\":\"%s\",\"sparts\":%s,\"tparts\":%s}\n", Dim, H, Per ? "true" : "false", s.mode, s.stop, s.bs, s.ogpp,
               (ex % 2 == 1) ? (s.mode ? "openmp-tsm-mock-random" : "openmp-mock-random") : (s.mode ? "sequential-tsm" : "sequential"), listStr(s.sparts).c_str(), listStr(s.tparts).c_str());
        ctx<Dim>().trace = stdout;
        RT.strategy = mockomp::RANDOM; RT.nthreads = 1 + (int)(rng() % 8); RT.wpolicy = mockomp::W_RANDOM; RT.seed = rng(); RT.scrub = false; RT.reset();
        if(s.mode == 0){
            Tree tree(R.conf, R.spos, s.bs, s.ogpp != 0); R.registerCells<true,true>(tree);
            if(ex % 2 == 1){ TbfOpenmpAlgorithm<Real, Kern, Space> algo(R.conf, s.stop); algo.execute(tree); }
            else { TbfAlgorithm<Real, Kern, Space> algo(R.conf, s.stop); algo.execute(tree); }
        } else {
            TreeTsm tree(R.conf, R.spos, R.tpos, s.bs, s.ogpp != 0); SrcView S{tree}; TgtView T{tree}; R.registerCells<true,false>(S); R.registerCells<false,true>(T);
            if(ex % 2 == 1){ TbfOpenmpAlgorithmTsm<Real, Kern, Space> algo(R.conf, s.stop); algo.execute(tree); }
            else { TbfAlgorithmTsm<Real, Kern, Space> algo(R.conf, s.stop); algo.execute(tree); }
        }
        ctx<Dim>().trace = nullptr;
        printf("{\"e\":\"End\"}\n");
    }
    RT.reset();
    return 0;
}
