// code -> spec: records sessions of the real classes on seeded random trees (larger than TLC can enumerate) as ndjson
// traces for validation by TLC against spec/FmmTrace.tla.
// usage: record_fmm <height> <seed> <nbSessions> <maxParticles> <mode 0 single | 1 target/source> [<events>]   (dimension / periodicity fixed at build time)
//   events (bit mask): 1 Tree (group structure after construction and after every rebuild), 2 Find (look-ups), 4 histories (staged executes,
//   in-place moves + rebuild + second pass), 8 dense trees (every leaf occupied).  Default 0: one full execute per session, kernel calls only.
// A session:  Init  [Tree..] [Find..]  kernel calls of execute(...)  [Rebuild [Tree..] [Find..] kernel calls]  End
// Sessions alternate between the sequential executor and the OpenMP executor under the mock runtime with a seeded random schedule.
#include "mockomp.hpp"
#include "fmmrun.hpp"
#include "algorithms/openmp/tbfopenmpalgorithm.hpp"
#include "algorithms/openmp/tbfopenmpalgorithmtsm.hpp"
#include <random>
using namespace vh;

static std::mt19937_64* gRng = nullptr;

template <class T> static void logTree(T& tree, long which, long H){
    printf("{\"e\":\"Tree\",\"which\":%ld,\"groups\":[", which);
    for(long l = 0; l < H; ++l){
        printf("%s[", l ? "," : "");
        auto& gs = tree.getCellGroupsAtLevel(l);
        for(size_t g = 0; g < gs.size(); ++g){ std::vector<long> c; for(long i = 0; i < gs[g].getNbCells(); ++i) c.push_back((long)gs[g].getCellSpacialIndex(i)); printf("%s%s", g ? "," : "", listStr(c).c_str()); }
        printf("]");
    }
    // the leaf level once more as seen through the particle groups (one-to-one, cell by cell, with the leaf cell groups)
    printf("],\"leaves\":[");
    auto& pg = tree.getParticleGroups();
    for(size_t g = 0; g < pg.size(); ++g){ std::vector<long> c; for(long i = 0; i < pg[g].getNbLeaves(); ++i) c.push_back((long)pg[g].getLeafSpacialIndex(i)); printf("%s%s", g ? "," : "", listStr(c).c_str()); }
    printf("]}\n");
}
template <class T> static void logFinds(T& tree, long which, long H, int n){
    auto& rng = *gRng;
    for(int k = 0; k < n; ++k){
        const long l = (long)(rng() % (unsigned long)H); const long ub = 1L << (l * Dim);
        long idx;
        auto& gs = tree.getCellGroupsAtLevel(l);
        const int how = (int)(rng() % 6);
        if(how == 0) idx = -1; else if(how == 1) idx = ub; else if(how <= 3 || gs.empty()) idx = (long)(rng() % (unsigned long)ub);
        else { auto& g = gs[rng() % gs.size()]; idx = (long)g.getCellSpacialIndex((long)(rng() % (unsigned long)g.getNbCells())) + (how == 5 ? 1 : 0); }
        {   auto f = tree.findGroupWithCell(l, idx); long g = 0, p = 0;
            if(f){ g = (long)(&f->first.get() - &gs[0]) + 1; p = (long)f->second + 1; }
            printf("{\"e\":\"Find\",\"which\":%ld,\"leaf\":0,\"l\":%ld,\"m\":%ld,\"g\":%ld,\"p\":%ld}\n", which, l, idx, g, p); }
        if(l == H - 1){ auto& pg = tree.getParticleGroups(); auto f = tree.findGroupWithLeaf(idx); long g = 0, p = 0;
            if(f){ g = (long)(&f->first.get() - &pg[0]) + 1; p = (long)f->second + 1; }
            printf("{\"e\":\"Find\",\"which\":%ld,\"leaf\":1,\"l\":%ld,\"m\":%ld,\"g\":%ld,\"p\":%ld}\n", which, l, idx, g, p); }
    }
}

int main(int argc, char** argv){
    if(argc < 5){ fprintf(stderr, "usage: record_fmm height seed nbExec maxParticles [mode [events]]\n"); return 2; }
    const long H = atol(argv[1]); const unsigned long seed = strtoul(argv[2], nullptr, 10); const long nexec = atol(argv[3]); const long maxN = atol(argv[4]); const long modeArg = argc > 5 ? atol(argv[5]) : 0;
    const long events = argc > 6 ? atol(argv[6]) : 0;
    std::mt19937_64 rng(seed * 1000003 + 17 + (unsigned long)events * 7919); gRng = &rng;
    Report rep; auto& RT = mockomp::rt();
    const long side = 1L << (H - 1);
    installCrashHandlers(); gCrashKey = "record_fmm";
    for(long ex = 0; ex < nexec; ++ex){
        Scn s; s.variant = (long)(rng() % 16); s.dim = Dim; s.height = H; s.periodic = Per; s.mode = modeArg;
        s.bs = 1 + (long)(rng() % 7); s.ogpp = rng() % 2; s.stop = Per ? 1 : (long)(rng() % 3); s.hist = 0; s.above = -1; s.ilo = -1; s.ihi = 1;
        auto gen = [&](long n){ std::vector<long> parts(n); std::array<long,Dim> c;
            for(long i = 0; i < n; ++i){ for(long d = 0; d < Dim; ++d){ c[d] = (long)(rng() % (unsigned long)side); if(i > 0 && rng() % 3 == 0){ c[d] = mortonCoord<Dim>(parts[i-1], H - 1)[d] + (long)(rng() % 3) - 1; if(c[d] < 0) c[d] = 0; if(c[d] >= side) c[d] = side - 1; } }
                parts[i] = mortonIndex<Dim>(c, H - 1); } return parts; };
        s.sparts = gen(1 + (long)(rng() % (unsigned long)maxN)); s.tparts = s.mode ? gen(1 + (long)(rng() % (unsigned long)maxN)) : s.sparts;
        if(events & 8){       // dense: every leaf occupied (full interaction lists, full sibling sets, groups cut anywhere), block sizes up to 40;
                              // large trees: a fully occupied 6^Dim block at an even offset (its central cells own the maximal interaction list), any block size
            const long nl = 1L << ((H - 1) * Dim); s.sparts.clear();
            if(nl <= 300){ for(long m = 0; m < nl; ++m) s.sparts.push_back(m); s.bs = 1 + (long)(rng() % 40); }
            else { std::array<long,Dim> a; for(long d = 0; d < Dim; ++d) a[d] = 2 * (long)(rng() % (unsigned long)((side - 6) / 2 + 1));
                   long tot = 1; for(long d = 0; d < Dim; ++d) tot *= 6;
                   for(long k = 0; k < tot; ++k){ std::array<long,Dim> c; long r = k; for(long d = 0; d < Dim; ++d){ c[d] = a[d] + r % 6; r /= 6; } s.sparts.push_back(mortonIndex<Dim>(c, H - 1)); }
                   const long pick[6] = {1000, 7, 100, 27, 64, 1}; s.bs = pick[ex % 6]; }     // first session: one group per level, every list delivered in one call
            const long n0 = (long)s.sparts.size();
            for(long k = 0; k < n0 / 8; ++k) s.sparts.push_back(s.sparts[rng() % (unsigned long)n0]);       // some leaves hold several particles
            s.tparts = s.sparts;
        }
        s.key = "rec" + std::to_string(ex);
        Replayer R(rep, s); R.makeInputs(s.sparts, R.spos, R.sSpec, R.sInputOf);
        if(s.mode) R.makeInputs(s.tparts, R.tpos, R.tSpec, R.tInputOf); else { R.tpos = R.spos; R.tSpec = R.sSpec; R.tInputOf = R.sInputOf; }
        R.setupContext(); ctx<Dim>().rep = nullptr;
        const bool omp = (ex % 2 == 1);
        // input order: spec pid q is inserted at R.sInputOf[q-1]; the trace lists leaves by spec pid
        printf("{\"e\":\"Init\",\"dim\":%ld,\"height\":%ld,\"periodic\":%s,\"mode\":%ld,\"stop\":%ld,\"bs\":%ld,\"ogpp\":%s,\"exec\":\"%s\",\"sparts\":%s,\"tparts\":%s}\n", Dim, H, Per ? "true" : "false", s.mode, s.stop, s.bs, s.ogpp ? "true" : "false",
               omp ? (s.mode ? "openmp-tsm-mock-random" : "openmp-mock-random") : (s.mode ? "sequential-tsm" : "sequential"), listStr(s.sparts).c_str(), listStr(s.tparts).c_str());
        RT.strategy = mockomp::RANDOM; RT.nthreads = 1 + (int)(rng() % 8); RT.wpolicy = mockomp::W_RANDOM; RT.seed = rng(); RT.scrub = false; RT.reset();
        // the history of this session
        std::vector<std::vector<int>> passes;        // each pass = the flag sets of its execute() calls
        auto onePass = [&](){ std::vector<int> p; if(!(events & 4)) return std::vector<int>{F_ALL};
            switch((int)(rng() % 5)){ case 0: p = {F_ALL}; break; case 1: p = {F_UP, F_TRANSFER, F_DOWN}; break; case 2: p = {F_P2P, F_P2M|F_M2M|F_M2L, F_L2L|F_L2P}; break;
                                    case 3: p = {F_FAR, F_NEAR}; break; default: p = {F_P2M, F_M2M, F_M2L, F_L2L, F_L2P, F_P2P}; } return p; };
        passes.push_back(onePass());
        if((events & 4) && rng() % 2 == 0) passes.push_back(onePass());
        auto runPasses = [&](auto& tree, auto& algo, auto&& logTrees, auto&& moveSome){
            for(size_t p = 0; p < passes.size(); ++p){
                if(p > 0){
                    moveSome();
                    gPhase = "rebuild"; tree.rebuild();
                    printf("{\"e\":\"Rebuild\",\"sparts\":%s,\"tparts\":%s}\n", listStr(s.sparts).c_str(), listStr(s.tparts).c_str());
                }
                logTrees();
                ctx<Dim>().trace = stdout; gPhase = "execute";
                for(int flags : passes[p]) algo.execute(tree, flags);
                ctx<Dim>().trace = nullptr;
            }
        };
        auto randomLeaf = [&](){ std::array<long,Dim> c; for(long d = 0; d < Dim; ++d) c[d] = (long)(rng() % (unsigned long)side); return mortonIndex<Dim>(c, H - 1); };
        if(s.mode == 0){
            Tree tree(R.conf, R.spos, s.bs, s.ogpp != 0);
            auto logTrees = [&](){ ctx<Dim>().mpOf.clear(); ctx<Dim>().loOf.clear(); R.registerCells<true,true>(tree); if(events & 1) logTree(tree, 0, H); if(events & 2) logFinds(tree, 0, H, 12); };
            auto moveSome = [&](){ const long nm = 1 + (long)(rng() % 3);
                for(long k = 0; k < nm; ++k){ const long q = (long)(rng() % s.sparts.size()); const long in = R.sInputOf[q]; const long to = (rng() % 2) ? randomLeaf() : s.sparts[rng() % s.sparts.size()];
                    s.sparts[q] = to; for(long d = 0; d < Dim; ++d) R.spos[in][d] = R.leafCentreCoord(to, d);
                    tree.applyToAllLeaves([&](auto&& h, const long* idx, auto data, auto){ for(long i = 0; i < h.nbParticles; ++i) if(idx[i] == in) for(long d = 0; d < Dim; ++d) data[d][i] = R.spos[in][d]; }); }
                s.tparts = s.sparts; };
            if(omp){ TbfOpenmpAlgorithm<Real, Kern, Space> algo(R.conf, s.stop); runPasses(tree, algo, logTrees, moveSome); }
            else { TbfAlgorithm<Real, Kern, Space> algo(R.conf, s.stop); runPasses(tree, algo, logTrees, moveSome); }
        } else {
            TreeTsm tree(R.conf, R.spos, R.tpos, s.bs, s.ogpp != 0); SrcView S{tree}; TgtView T{tree};
            auto logTrees = [&](){ ctx<Dim>().mpOf.clear(); ctx<Dim>().loOf.clear(); R.registerCells<true,false>(S); R.registerCells<false,true>(T);
                if(events & 1){ logTree(S, 0, H); logTree(T, 1, H); } if(events & 2){ logFinds(S, 0, H, 8); logFinds(T, 1, H, 8); } };
            auto moveSome = [&](){ const long nm = 1 + (long)(rng() % 3);
                for(long k = 0; k < nm; ++k){ const bool tg = rng() % 2; auto& parts = tg ? s.tparts : s.sparts; auto& pos = tg ? R.tpos : R.spos; auto& inputOf = tg ? R.tInputOf : R.sInputOf;
                    const long q = (long)(rng() % parts.size()); const long in = inputOf[q]; const long to = (rng() % 2) ? randomLeaf() : parts[rng() % parts.size()];
                    parts[q] = to; for(long d = 0; d < Dim; ++d) pos[in][d] = R.leafCentreCoord(to, d);
                    auto edit = [&](auto&& h, const long* idx, auto data, auto...){ for(long i = 0; i < h.nbParticles; ++i) if(idx[i] == in) for(long d = 0; d < Dim; ++d) data[d][i] = pos[in][d]; };
                    if(tg) tree.applyToAllLeavesTarget(edit); else tree.applyToAllLeavesSource(edit); } };
            if(omp){ TbfOpenmpAlgorithmTsm<Real, Kern, Space> algo(R.conf, s.stop); runPasses(tree, algo, logTrees, moveSome); }
            else { TbfAlgorithmTsm<Real, Kern, Space> algo(R.conf, s.stop); runPasses(tree, algo, logTrees, moveSome); }
        }
        printf("{\"e\":\"End\"}\n");
    }
    RT.reset();
    return 0;
}
