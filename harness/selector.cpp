// C19: the build configuration that enables several task runtimes at once - the algorithm selector header with OpenMP, Specx and
// StarPU all defined (mock runtime headers) - must compile and the selected executors must satisfy exactly-once.
#define TBF_USE_OPENMP
#define TBF_USE_SPECX
#define TBF_USE_STARPU
#include "mockomp.hpp"
#include "hcommon.hpp"
#include "spacial/tbfmortonspaceindex.hpp"
#include "spacial/tbfspacialconfiguration.hpp"
#include "core/tbftree.hpp"
#include "core/tbftreetsm.hpp"
#include "algorithms/tbfalgorithmselecter.hpp"
#include <random>
constexpr long Dim = 3; using Real = double; using Conf = TbfSpacialConfiguration<Real, Dim>; using Space = TbfMortonSpaceIndex<Dim, Conf, false>;
struct Acc { long cnt; };
template <class RealType_T, class SpaceIndexType_T> class CountKernel {
public:
    using RealType = RealType_T; using SpaceIndexType = SpaceIndexType_T; using SpacialConfiguration = TbfSpacialConfiguration<RealType, SpaceIndexType::Dim>;
    explicit CountKernel(const SpacialConfiguration&){} CountKernel(const CountKernel&) = default;
    template <class S, class P, class L> void P2M(const S&, const long int[], const P&, const long int n, L& leaf) const { leaf.cnt += n; }
    template <class S, class C, class Cell> void M2M(const S&, const long int, const C& low, Cell& up, const long int[], const long int n) const { for(long i = 0; i < n; ++i) up.cnt += low[i].get().cnt; }
    template <class S, class C, class Cell> void M2L(const S&, const long int, const C& src, const long int[], const long int n, Cell& out) const { for(long i = 0; i < n; ++i) out.cnt += src[i].get().cnt; }
    template <class S, class Cell, class C> void L2L(const S&, const long int, const Cell& up, C& low, const long int[], const long int n) const { for(long i = 0; i < n; ++i) low[i].get().cnt += up.cnt; }
    template <class S, class L, class V, class R> void L2P(const S&, const L& leaf, const long int[], const V&, R& rhs, const long int n) const { for(long i = 0; i < n; ++i) rhs[0][i] += leaf.cnt; }
    template <class S, class V, class R> void P2P(const S&, const long int[], const V&, R& r1, const long int n1, const S&, const long int[], const V&, R& r2, const long int n2, const long) const { for(long i = 0; i < n2; ++i) r2[0][i] += n1; for(long j = 0; j < n1; ++j) r1[0][j] += n2; }
    template <class S1, class V1, class S2, class V2, class R> void P2PTsm(const S1&, const long int[], const V1&, const long int n1, const S2&, const long int[], const V2&, R& r2, const long int n2, const long) const { for(long i = 0; i < n2; ++i) r2[0][i] += n1; }
    template <class S, class V, class R> void P2PInner(const S&, const long int[], const V&, R& r, const long int n) const { for(long i = 0; i < n; ++i) r[0][i] += n - 1; }
};
int main(int argc, char** argv){
    const unsigned long seed = argc > 1 ? strtoul(argv[1], nullptr, 10) : 1; const long iters = argc > 2 ? atol(argv[2]) : 20;
    vh::Report rep; std::mt19937_64 rng(seed + 99); auto& RT = mockomp::rt();
    using Kern = CountKernel<Real, Space>;
    using Algo = TbfAlgorithmSelecter::type<Real, Kern, Space>; using AlgoTsm = TbfAlgorithmSelecterTsm::type<Real, Kern, Space>;
    for(long it = 0; it < iters; ++it){
        const long H = 2 + (long)(rng() % 3); std::array<Real,Dim> w, c; w.fill(1); c.fill(0.5); const Conf conf(H, w, c);
        const long N = 2 + (long)(rng() % 20); std::vector<std::array<Real,Dim>> pos(N), tpos(1 + rng() % 9);
        for(auto& p : pos) for(auto& x : p) x = (double(rng() % 1024) + 0.5) / 1024.0; for(auto& p : tpos) for(auto& x : p) x = (double(rng() % 1024) + 0.5) / 1024.0;
        RT.strategy = (it % 2) ? mockomp::RANDOM : mockomp::LIFO; RT.nthreads = 1 + (int)(rng() % 6); RT.wpolicy = mockomp::W_RANDOM; RT.seed = rng(); RT.reset();
        const std::string key = std::string("selector-") + Algo::GetName() + "-it" + std::to_string(it);
        rep.scenarios++;
        { TbfTree<Real, Real, Dim, long, 1, Acc, Acc, Space> tree(conf, pos, 1 + (long)(rng() % 5), rng() % 2); Algo algo(conf); algo.execute(tree);
          tree.applyToAllLeaves([&](auto&& h, const long*, auto, auto rhs){ for(long i = 0; i < h.nbParticles; ++i) rep.ok("ExactlyOnce", key, rhs[0][i] == N - 1, "selected executor: particle count " + std::to_string(rhs[0][i]) + " expected " + std::to_string(N - 1)); }); }
        RT.reset();
        { TbfTreeTsm<Real, Real, Dim, long, 1, Acc, Acc, Space> tree(conf, pos, tpos, 1 + (long)(rng() % 5), rng() % 2); AlgoTsm algo(conf); algo.execute(tree);
          tree.applyToAllLeavesTarget([&](auto&& h, const long*, auto, auto rhs){ for(long i = 0; i < h.nbParticles; ++i) rep.ok("ExactlyOnce", key, rhs[0][i] == N, "selected target/source executor: count " + std::to_string(rhs[0][i]) + " expected " + std::to_string(N)); }); }
        RT.reset();
    }
    printf("INFO selected=%s\n", Algo::GetName());
    return rep.finish("selector");
}
