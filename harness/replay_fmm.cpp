// spec -> code replay of the scenarios printed by TLC from spec/Fmm.tla (sequential executors).
// build: g++ -std=c++17 -DDIMV=<d> -DPERIODICV=<0|1> [-DCAPV=<n>] [-DTSMWRAPV=<1|2>] -I/repo/src replay_fmm.cpp
// usage: replay_fmm < records        (one scenario per line, see vh::Scn::parse)
#include "fmmrun.hpp"
int main(){
    using namespace vh;
    installCrashHandlers();
    Report rep;
    std::string line; Rec r;
    while(std::getline(std::cin, line)){
        if(!r.parse(line)) continue;
        Scn s; s.parse(r);
        if(s.dim != Dim || (s.periodic != 0) != Per){ fprintf(stderr, "HARNESS-ERROR: scenario for dim %ld periodic %ld fed to a binary built for dim %ld periodic %d\n", s.dim, s.periodic, Dim, (int)Per); return 2; }
        static std::string keyHolder; keyHolder = s.key; gCrashKey = keyHolder.c_str();
        rep.scenarios++;
        Replayer R(rep, s);
        if(s.mode == 0) R.runSingle<TbfAlgorithm<Real, CKern, Space>>();
#ifdef TSMWRAPV      // C18: the target/source executor with the counter (1) or the counter around the timer (2) wrapped around the bag kernel
#if TSMWRAPV == 1
        else R.runTsm<TbfAlgorithmTsm<Real, CKern, Space>>();
#else
        else R.runTsm<TbfAlgorithmTsm<Real, TbfInteractionCounter<TbfInteractionTimer<Kern>>, Space>>();
#endif
#else
        else R.runTsm<TbfAlgorithmTsm<Real, Kern, Space>>();
#endif
    }
    return rep.finish("replay_fmm");
}
