// C08 / C03 with the shipped floating-point kernels: "equal to rounding for floating-point kernels" / "to rounding otherwise".
// The scenarios are the 3-D scenarios TLC prints from spec/Fmm.tla (occupancy x block size x grouping mode); for every occupancy the
// results of FRotationKernel and FUnifKernel must agree to rounding over all groupings (a parent that receives its children in several
// batches, a target that receives its interaction list in several partial calls), and the OpenMP executor under deferred schedules of
// the mock runtime must agree with the sequential executor.  No accuracy claim is made here (C04 / C05 are not applicable).
// build: g++ -std=c++17 -fopenmp -DDIMV=3 -DPERIODICV=0 -I/repo/src realkern.cpp        usage: realkern < records
#include "mockomp.hpp"
#include "fmmrun.hpp"
#include "algorithms/openmp/tbfopenmpalgorithm.hpp"
#include "kernels/rotationkernel/FRotationKernel.hpp"
#include "kernels/unifkernel/FUnifKernel.hpp"
#include <complex>
using namespace vh;
static_assert(Dim == 3, "the shipped kernels are three-dimensional");

using R = double;
using SpaceD = TbfDefaultSpaceIndexType<R>;
constexpr unsigned int P = 6;
constexpr long RVec = ((P + 2) * (P + 1)) / 2;
using RotMp = std::array<std::complex<R>, RVec>;
using RotKernel = FRotationKernel<R, P>;
using RotTree = TbfTree<R, R, 4, R, 4, RotMp, RotMp>;
constexpr int ORDER = 4;
constexpr long UVec = ORDER * ORDER * ORDER, UTVec = (2 * ORDER - 1) * (2 * ORDER - 1) * (2 * ORDER - 1);
struct UMp { R multipole_exp[UVec]; std::complex<R> transformed_multipole_exp[UTVec]; };
struct ULo { R local_exp[UVec]; std::complex<R> transformed_local_exp[UTVec]; };
using UnifKernel = FUnifKernel<R, FInterpMatrixKernelR<R>, ORDER>;
using UnifTree = TbfTree<R, R, 4, R, 4, UMp, ULo>;

using Result = std::vector<std::array<R, 4>>;
static bool close(const Result& a, const Result& b, std::string& why){
    if(a.size() != b.size()){ why = "sizes differ"; return false; }
    R scale = 0; for(auto& x : a) for(R v : x) scale = std::max(scale, std::abs(v));
    for(size_t i = 0; i < a.size(); ++i) for(int v = 0; v < 4; ++v){
        const R d = std::abs(a[i][v] - b[i][v]);
        if(!(d <= 1e-9 * scale + 1e-13) || !std::isfinite(a[i][v]) || !std::isfinite(b[i][v])){ std::ostringstream o; o.precision(17); o << "particle " << i << " value " << v << ": " << a[i][v] << " vs " << b[i][v]; why = o.str(); return false; }
    }
    return true;
}

template <class TreeT, class AlgoT> static Result runOne(const TbfSpacialConfiguration<R,3>& conf, const std::vector<std::array<R,4>>& pos, long bs, bool ogpp, AlgoT& algo){
    TreeT tree(conf, pos, bs, ogpp);
    algo.execute(tree);
    auto out = tree.getAllParticlesRhs();
    Result r(pos.size()); for(size_t i = 0; i < pos.size(); ++i) for(int v = 0; v < 4; ++v) r[i][v] = out[i][v];
    return r;
}

int main(){
    installCrashHandlers();
    Report rep; auto& RT = mockomp::rt();
    std::string line; Rec rc;
    std::map<std::string, std::pair<Result, Result>> refs;      // occupancy -> (rotation, unif) results of the first grouping seen
    FInterpMatrixKernelR<R> interp;
    while(std::getline(std::cin, line)){
        if(!rc.parse(line)) continue;
        Scn s; s.parse(rc);
        if(s.dim != 3 || s.periodic || s.mode){ fprintf(stderr, "HARNESS-ERROR: realkern takes 3-D non-periodic single-tree scenarios\n"); return 2; }
        static std::string kh; kh = s.key; gCrashKey = kh.c_str(); rep.scenarios++;
        Geometry geo(s.height, s.variant % 2);       // unit or anisotropic box
        const TbfSpacialConfiguration<R,3> conf(s.height, geo.width, geo.centre);
        std::vector<std::array<R,4>> pos(s.sparts.size());
        for(size_t q = 0; q < pos.size(); ++q){
            const auto c = mortonCoord<3>(s.sparts[q], s.height - 1);
            for(long d = 0; d < 3; ++d){ const double frac = 0.2 + 0.6 * double((q * 37 + d * 11 + 5) % 97) / 97.0; pos[q][d] = geo.corner[d] + (double(c[d]) + frac) * (geo.width[d] / double(geo.side)); }
            pos[q][3] = 0.01 * double(1 + q % 3);
        }
        std::ostringstream ok; ok << "h" << s.height << "-S" << listStr(s.sparts) << "-st" << s.stop << "-box" << (s.variant % 2); const std::string occ = ok.str();
        RT.strategy = mockomp::IMMEDIATE; RT.nthreads = 1; RT.reset();
        gPhase = "rotation kernel, sequential";
        Result rot, uni;
        { TbfAlgorithm<R, RotKernel, SpaceD> algo(conf, s.stop); rot = runOne<RotTree>(conf, pos, s.bs, s.ogpp != 0, algo); }
        gPhase = "uniform kernel, sequential";
        { TbfAlgorithm<R, UnifKernel, SpaceD> algo(conf, UnifKernel(conf, &interp), s.stop); uni = runOne<UnifTree>(conf, pos, s.bs, s.ogpp != 0, algo); }
        auto it = refs.find(occ);
        if(it == refs.end()) refs[occ] = {rot, uni};
        else { std::string why;
            const bool okRot = close(it->second.first, rot, why);
            rep.ok("GroupingIndependent", s.key, okRot, "FRotationKernel results differ beyond rounding from another grouping of the same particles: " + why);
            const bool okUni = close(it->second.second, uni, why);
            rep.ok("GroupingIndependent", s.key, okUni, "FUnifKernel results differ beyond rounding from another grouping of the same particles: " + why); }
        // the OpenMP executor under deferred schedules (per-worker kernel copies: tables, FFT plans and scratch buffers are duplicated by the copy constructors)
        struct Sc { mockomp::Strategy st; int threads; mockomp::WorkerPolicy wp; const char* name; };
        const Sc scs[2] = {{mockomp::LIFO, 3, mockomp::W_ROUNDROBIN, "lifo-3"}, {mockomp::RANDOM, 5, mockomp::W_RANDOM, "random-5"}};
        for(const Sc& sc : scs){
            RT.strategy = sc.st; RT.nthreads = sc.threads; RT.wpolicy = sc.wp; RT.seed = 17 + rep.scenarios; RT.scrub = true; RT.reset();
            const std::string key = s.key + "-" + sc.name; std::string why;
            gPhase = "rotation kernel, OpenMP";
            { TbfOpenmpAlgorithm<R, RotKernel, SpaceD> algo(conf, s.stop); Result r = runOne<RotTree>(conf, pos, s.bs, s.ogpp != 0, algo);
              const bool same = close(rot, r, why);
              rep.ok("SameAsSequential", key, same, "FRotationKernel through the OpenMP executor differs beyond rounding from the sequential executor: " + why); }
            gPhase = "uniform kernel, OpenMP";
            { TbfOpenmpAlgorithm<R, UnifKernel, SpaceD> algo(conf, UnifKernel(conf, &interp), s.stop); Result r = runOne<UnifTree>(conf, pos, s.bs, s.ogpp != 0, algo);
              const bool same = close(uni, r, why);
              rep.ok("SameAsSequential", key, same, "FUnifKernel through the OpenMP executor differs beyond rounding from the sequential executor: " + why); }
            if(!RT.error.empty()){ printf("HARNESS-ERROR mock runtime: %s\n", RT.error.c_str()); return 2; }
        }
    }
    RT.reset();
    return rep.finish("realkern");
}
