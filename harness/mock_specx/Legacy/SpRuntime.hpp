// API-compatible mock of the part of Specx (Legacy/SpRuntime.hpp) that tbfmm's Specx executors use.
// Tasks are handed to the same controllable scheduler core as the OpenMP mock (mockomp.hpp): SpRead = in, SpWrite = out,
// SpCommutativeWrite = mutually exclusive unordered access (mutexinoutset).  Worker ids are 1-based, as in Specx
// (the executors index kernels[SpUtils::GetThreadId()-1]).
#ifndef VERIF_MOCK_SPRUNTIME_HPP
#define VERIF_MOCK_SPRUNTIME_HPP
#include "mockomp.hpp"
#include <tuple>
#include <utility>
#include <functional>
#include <memory>
enum class SpSpeculativeModel { SP_NO_SPEC };
struct SpPriority { int v; explicit SpPriority(int x) : v(x) {} };
template <class T> struct SpReadT { const T& ref; };
template <class T> struct SpWriteT { T& ref; };
template <class T> struct SpCommT { T& ref; };
template <class T> SpReadT<T> SpRead(const T& x){ return SpReadT<T>{x}; }
template <class T> SpWriteT<T> SpWrite(T& x){ return SpWriteT<T>{x}; }
template <class T> SpCommT<T> SpCommutativeWrite(T& x){ return SpCommT<T>{x}; }
namespace SpUtils {
    inline int GetThreadId(){ return mockomp::rt().curThread + 1; }
    inline int DefaultNumThreads(){ return mockomp::rt().nthreads; }
}
struct SpWorkerTeam { int n; };
struct SpWorkerTeamBuilder { static SpWorkerTeam TeamOfCpuWorkers(){ return SpWorkerTeam{mockomp::rt().nthreads}; } static SpWorkerTeam TeamOfCpuWorkers(int n){ return SpWorkerTeam{n}; } };
struct SpComputeEngine {
    int n; explicit SpComputeEngine(SpWorkerTeam t) : n(t.n) {}
    int getNbCpuWorkers() const { return n; }
    void stopIfNotAlreadyStopped(){}
};
namespace mockspecx {
    template <class T> const T& unwrap(const SpReadT<T>& a){ return a.ref; }
    template <class T> T& unwrap(const SpWriteT<T>& a){ return a.ref; }
    template <class T> T& unwrap(const SpCommT<T>& a){ return a.ref; }
    template <class T> mockomp::Dep dep(const SpReadT<T>& a){ return {(void*)&a.ref, mockomp::IN}; }
    template <class T> mockomp::Dep dep(const SpWriteT<T>& a){ return {(void*)&a.ref, mockomp::OUT}; }
    template <class T> mockomp::Dep dep(const SpCommT<T>& a){ return {(void*)&a.ref, mockomp::MUTEX}; }
}
template <SpSpeculativeModel M> class SpTaskGraph {
    template <class Tuple, std::size_t... I> void submit(int prio, Tuple&& t, std::index_sequence<I...>){
        auto& R = mockomp::rt();
        mockomp::Task task; task.fn = nullptr; task.data = nullptr; task.priority = prio; task.id = (long)R.tasks.size();
        (task.deps.push_back(mockspecx::dep(std::get<I>(t))), ...);
        // the callable is moved into the task (Specx copies/moves it too); the accesses keep referring to the user's objects
        auto fn = std::make_shared<std::decay_t<decltype(std::get<sizeof...(I)>(t))>>(std::move(std::get<sizeof...(I)>(t)));
        auto accs = std::make_tuple(std::get<I>(t)...);
        task.call = [fn, accs](){ std::apply([&](auto&... a){ (*fn)(mockspecx::unwrap(a)...); }, accs); };
        R.tasks.push_back(std::move(task));
        if(R.onSubmit) R.onSubmit(R.tasks.back());
        if(R.strategy == mockomp::IMMEDIATE) R.runTask(R.tasks.size() - 1, R.pickWorker(R.executed));
    }
public:
    void computeOn(SpComputeEngine&){}
    template <class... P> void task(SpPriority prio, P&&... params){
        auto t = std::forward_as_tuple(std::forward<P>(params)...);
        submit(prio.v, t, std::make_index_sequence<sizeof...(P) - 1>());
    }
    void waitAllTasks(){ mockomp::rt().wait(); }
};
#endif
