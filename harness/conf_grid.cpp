// C11 conformance: compares the library's space-filling-curve index classes with the lists
// computed by TLC from spec/Grid.tla (spec -> code), and dumps the library's coordinate table
// for the orderings whose curve the specification does not prescribe (code -> spec, Hilbert).
//
// build: g++ -std=c++17 -DDIMV=<1..4> -DPERIODICV=<0|1> -DORDERV=<0 morton|1 hilbert> -I/repo/src conf_grid.cpp
// usage: conf_grid dump <height>            -> ndjson table on stdout
//        conf_grid check <height> < records -> MISMATCH lines + SUMMARY
// record (one per cell): l m c[Dim] parent childcode nIL il... nNB nb... nSH sh...
//   il entry = srcIndex * 7^Dim + code7 ; nb entry = srcIndex * 3^Dim + code3
//   sh entry (periodic leaf level only) = (srcIndex * 3^Dim + code3) * 3^Dim + enc3(image): the copy of the box the neighbour lives in
#include "hcommon.hpp"
#include "spacial/tbfmortonspaceindex.hpp"
#include "spacial/tbfhilbertspaceindex.hpp"
#include "spacial/tbfspacialconfiguration.hpp"
#include "utils/tbfperiodicshifter.hpp"
#include <optional>

#ifndef DIMV
#define DIMV 3
#endif
#ifndef PERIODICV
#define PERIODICV 0
#endif
#ifndef ORDERV
#define ORDERV 0
#endif
constexpr long Dim = DIMV;
constexpr bool Per = (PERIODICV != 0);
using Real = double;
using Conf = TbfSpacialConfiguration<Real, Dim>;
#if ORDERV == 0
using Space = TbfMortonSpaceIndex<Dim, Conf, Per>;
static const char* kOrder = "morton";
#else
using Space = TbfHilbertSpaceIndex<Dim, Conf, Per>;
static const char* kOrder = "hilbert";
#endif

// a minimal group object with the accessors the list builders use (cells and leaves)
struct FakeGroup {
    std::vector<long> idx; // sorted
    long getNbCells() const { return (long)idx.size(); }
    long getNbLeaves() const { return (long)idx.size(); }
    long getCellSpacialIndex(long i) const { return idx[i]; }
    long getLeafSpacialIndex(long i) const { return idx[i]; }
    long getStartingSpacialIndex() const { return idx.front(); }
    long getEndingSpacialIndex() const { return idx.back(); }
    std::optional<long> getElementFromSpacialIndex(long v) const {
        auto it = std::lower_bound(idx.begin(), idx.end(), v);
        if(it == idx.end() || *it != v) return std::nullopt;
        return std::optional<long>(it - idx.begin());
    }
};

struct CellExp { long l, m; std::array<long,Dim> c; long parent, cc; std::vector<long> il, nb, sh; };
// leaf header as far as the periodic shifter reads it
struct FakeLeafHeader { long spaceIndex; std::array<long,Dim> boxCoord; };

static std::string key(long height, long l, long m){
    std::ostringstream os; os << kOrder << (Per ? "-per" : "") << "-d" << Dim << "-h" << height << "-l" << l << "-m" << m; return os.str();
}

int main(int argc, char** argv){
    if(argc < 3){ fprintf(stderr, "usage: conf_grid dump|check <height>\n"); return 2; }
    const std::string mode = argv[1];
    const long height = atol(argv[2]);
    std::array<Real,Dim> w, ctr; w.fill(1); ctr.fill(0.5);
    const Conf conf(height, w, ctr);
    const Space space(conf);
    const long P7 = vh::ipow(7, Dim), P3 = vh::ipow(3, Dim);

    if(mode == "dump"){
        for(long l = 0; l < height; ++l){
            printf("{\"l\":%ld,\"tab\":[", l);
            const long n = 1L << (l * Dim);
            for(long m = 0; m < n; ++m){
                const auto c = space.getBoxPosFromIndex(m);
                printf("%s[", m ? "," : "");
                for(long d = 0; d < Dim; ++d) printf("%s%ld", d ? "," : "", c[d]);
                printf("]");
            }
            printf("]}\n");
        }
        return 0;
    }

    if(mode == "deep"){
        // record: level nl limbBits | c[Dim][nl] | parent[Dim][nl] | cc | nNb { c[Dim][nl] code } | nIL { c[Dim][nl] code }     (height argument = level + 1)
        vh::Report rep; std::string line; vh::Rec r;
        while(std::getline(std::cin, line)){
            if(!r.parse(line)) continue;
            const long level = r.get(), nl = r.get(), lb = r.get();
            const long topBits = level - (nl - 1) * lb;
            auto readCoord = [&](){ std::array<long,Dim> c; for(long d = 0; d < Dim; ++d){ long v = 0; for(long i = 0; i < nl; ++i){ const long limb = r.get(); v = (i == 0) ? limb : (v << lb) + limb; } c[d] = v; } (void)topBits; return c; };
            auto own = [&](const std::array<long,Dim>& c, long l){ long m = 0; for(long b = 0; b < l; ++b) for(long d = 0; d < Dim; ++d) m |= ((c[d] >> b) & 1L) << (b * Dim + (Dim - 1 - d)); return m; };
            const auto c = readCoord(); const auto parent = readCoord(); const long cc = r.get();
            std::ostringstream ks; ks << kOrder << (Per ? "-per" : "") << "-d" << Dim << "-deep-l" << level << "-c" << vh::listStr(c); const std::string k = ks.str();
            rep.scenarios++;
#if ORDERV == 1
            {   // Hilbert: the specification does not prescribe the curve; at deep levels the axioms that do not involve parent / child (known finding F06)
                // are evaluated in COORDINATE space: index in range, index <-> coordinate round trip, neighbour and interaction lists = the cells at
                // the offsets the specification lists (the returned indices are converted back with getBoxPosFromIndex)
                (void)parent; (void)cc; (void)own;
                const long hidx = (long)space.getIndexFromBoxPos(c);
                const bool inRange = hidx >= 0 && (Dim * level >= 63 || hidx < (1L << (Dim * level)));
                rep.ok("Bijection", k, inRange, "getIndexFromBoxPos (deep, Hilbert) returns " + std::to_string(hidx) + ", outside [0, 2^(Dim*level))");
                if(!inRange) continue;
                rep.eq("Bijection", k, vh::listStr(space.getBoxPosFromIndex(hidx)), vh::listStr(c), "getBoxPosFromIndex(getIndexFromBoxPos(c)) (deep, Hilbert)");
                std::vector<std::array<long,Dim>> expNb, expIl; std::vector<long> codesNb, codesIl;
                const long nNb = r.get(); for(long i = 0; i < nNb; ++i){ expNb.push_back(readCoord()); codesNb.push_back(r.get()); }
                const long nIl = r.get(); for(long i = 0; i < nIl; ++i){ expIl.push_back(readCoord()); codesIl.push_back(r.get()); }
                auto coordsOf = [&](const auto& lst, bool& ok){ std::vector<std::array<long,Dim>> v; for(auto x : lst){ const long xi = (long)x; if(xi < 0 || (Dim * level < 63 && xi >= (1L << (Dim * level)))){ ok = false; continue; } v.push_back(space.getBoxPosFromIndex(xi)); } std::sort(v.begin(), v.end()); return v; };
                std::sort(expNb.begin(), expNb.end()); std::sort(expIl.begin(), expIl.end());
                { bool ok = true; auto l1 = space.getNeighborListForIndex(hidx, level); auto obs = coordsOf(l1, ok);
                  rep.ok("NeighbourListDef", k, ok && obs == expNb, "getNeighborListForIndex (deep, Hilbert): the cells returned are not the adjacent cells (observed " + std::to_string(obs.size()) + ", expected " + std::to_string(expNb.size()) + (ok ? ")" : ", indices out of range)")); }
                { bool ok = true; auto l2 = space.getInteractionListForIndex(hidx, level); auto obs = coordsOf(l2, ok);
                  rep.ok("InteractionListDef", k, ok && obs == expIl, "getInteractionListForIndex (deep, Hilbert): the cells returned are not the interaction list (observed " + std::to_string(obs.size()) + ", expected " + std::to_string(expIl.size()) + (ok ? ")" : ", indices out of range)")); }
                continue;
            }
#endif
            const long idx = own(c, level);
            rep.eq("Bijection", k, (long)space.getIndexFromBoxPos(c), idx, "getIndexFromBoxPos (deep)");
            rep.eq("Bijection", k, vh::listStr(space.getBoxPosFromIndex(idx)), vh::listStr(c), "getBoxPosFromIndex (deep)");
            // the parent coordinate arrives in the limb layout of the child level: it is the child's coordinate halved
            rep.eq("ParentContains", k, (long)space.getParentIndex(idx), own(parent, level - 1), "getParentIndex (deep)");
            rep.eq("ChildCode", k, (long)space.childPositionFromParent(idx), cc, "childPositionFromParent (deep)");
            std::vector<long> expNb, expNbPairs, expIl, expIlPairs;
            const long nNb = r.get(); for(long i = 0; i < nNb; ++i){ const auto nc = readCoord(); const long code = r.get(); expNb.push_back(own(nc, level)); expNbPairs.push_back(own(nc, level)); expNbPairs.push_back(code); }
            const long nIl = r.get(); for(long i = 0; i < nIl; ++i){ const auto nc = readCoord(); const long code = r.get(); expIl.push_back(own(nc, level)); expIlPairs.push_back(own(nc, level)); expIlPairs.push_back(code); }
            { auto l1 = space.getNeighborListForIndex(idx, level); std::vector<long> obs(l1.begin(), l1.end()); std::sort(obs.begin(), obs.end()); std::sort(expNb.begin(), expNb.end());
              rep.eq("NeighbourListDef", k, vh::listStr(obs), vh::listStr(expNb), "getNeighborListForIndex (deep)"); }
            { auto l2 = space.getInteractionListForIndex(idx, level); std::vector<long> obs(l2.begin(), l2.end()); std::sort(obs.begin(), obs.end()); std::sort(expIl.begin(), expIl.end());
              rep.eq("InteractionListDef", k, vh::listStr(obs), vh::listStr(expIl), "getInteractionListForIndex (deep)"); }
            { FakeGroup g; g.idx = {idx};
              auto res = space.getInteractionListForBlock(g, level, false); std::vector<std::pair<long,long>> obs, exp;
              for(auto& it : res.first) obs.push_back({(long)it.indexSrc, (long)it.arrayIndexSrc}); for(auto& it : res.second) obs.push_back({(long)it.indexSrc, (long)it.arrayIndexSrc});
              for(size_t i = 0; i + 1 < expIlPairs.size(); i += 2) exp.push_back({expIlPairs[i], expIlPairs[i+1]});
              std::sort(obs.begin(), obs.end()); std::sort(exp.begin(), exp.end());
              rep.ok("InteractionListDef", k, obs == exp, "getInteractionListForBlock sources/codes (deep): observed " + std::to_string(obs.size()) + " expected " + std::to_string(exp.size()));
              auto rn = space.getNeighborListForBlock(g, level, false, false); std::vector<std::pair<long,long>> on, en;
              for(auto& it : rn.first) on.push_back({(long)it.indexSrc, (long)it.arrayIndexSrc}); for(auto& it : rn.second) on.push_back({(long)it.indexSrc, (long)it.arrayIndexSrc});
              for(size_t i = 0; i + 1 < expNbPairs.size(); i += 2) en.push_back({expNbPairs[i], expNbPairs[i+1]});
              std::sort(on.begin(), on.end()); std::sort(en.begin(), en.end());
              rep.ok("NeighbourListDef", k, on == en, "getNeighborListForBlock sources/codes (deep): observed " + std::to_string(on.size()) + " expected " + std::to_string(en.size())); }
        }
        return rep.finish("conf_grid_deep");
    }
    vh::Report rep;
    std::map<std::pair<long,long>, CellExp> cells;
    {
        std::string line; vh::Rec r;
        while(std::getline(std::cin, line)){
            if(!r.parse(line)) continue;
            CellExp e; e.l = r.get(); e.m = r.get(); for(long d = 0; d < Dim; ++d) e.c[d] = r.get();
            e.parent = r.get(); e.cc = r.get(); e.il = r.getList(); e.nb = r.getList(); if(!r.done()) e.sh = r.getList();
            std::sort(e.il.begin(), e.il.end()); std::sort(e.nb.begin(), e.nb.end());
            cells[{e.l, e.m}] = e;
        }
    }
    // static code helpers: encode/decode are inverse and decode digit-wise with dimension 0 most significant
    for(long code = 0; code < P7; ++code){
        auto rel = Space::getRelativePosFromInteractionIndex(code);
        long c = code; bool same = true;
        for(long d = Dim-1; d >= 0; --d){ if(rel[d] != (c % 7) - 3) same = false; c /= 7; }
        rep.ok("CodeRoundTrip", "code7-" + std::to_string(code), same, "getRelativePosFromInteractionIndex decodes wrongly");
        rep.eq("CodeRoundTrip", "code7-" + std::to_string(code), Space::getInteractionIndexFromRelativePos(rel), code, "encode(decode(code7))");
    }
    for(long code = 0; code < P3; ++code){
        auto rel = Space::getRelativePosFromNeighborIndex(code);
        long c = code; bool same = true;
        for(long d = Dim-1; d >= 0; --d){ if(rel[d] != (c % 3) - 1) same = false; c /= 3; }
        rep.ok("CodeRoundTrip", "code3-" + std::to_string(code), same, "getRelativePosFromNeighborIndex decodes wrongly");
        rep.eq("CodeRoundTrip", "code3-" + std::to_string(code), Space::getNeighborIndexFromRelativePos(rel), code, "encode(decode(code3))");
    }
    rep.eq("Constants", "nbChildren", Space::getNbChildrenPerCell(), 1L << Dim, "getNbChildrenPerCell");
    rep.eq("Constants", "nbInteractions", Space::getNbInteractionsPerCell(), vh::ipow(6,Dim) - vh::ipow(3,Dim), "getNbInteractionsPerCell");
    rep.eq("Constants", "nbNeighbors", Space::getNbNeighborsPerLeaf(), P3 - 1, "getNbNeighborsPerLeaf");

    std::vector<std::vector<long>> perLevel(height);
    for(auto& kv : cells) if(kv.first.first < height) perLevel[kv.first.first].push_back(kv.first.second);

    for(auto& kv : cells){
        const CellExp& e = kv.second; const long l = e.l, m = e.m;
        const std::string k = key(height, l, m);
        rep.scenarios++;
        // ---- bijection and hierarchy
        rep.ok("Bounds", k, space.getUpperBound(l) == (1L << (l*Dim)), "getUpperBound");
        const auto pos = space.getBoxPosFromIndex(m);
        rep.eq("Bijection", k, vh::listStr(pos), vh::listStr(e.c), "getBoxPosFromIndex");
        rep.eq("Bijection", k, (long)space.getIndexFromBoxPos(e.c), m, "getIndexFromBoxPos");
        if(l > 0){
            rep.eq("ParentContains", k, (long)space.getParentIndex(m), e.parent, "getParentIndex");
            // the child code must identify the octant: children of one parent get distinct codes; for Morton it is the octant bits
            const long cc = space.childPositionFromParent(m);
            rep.ok("ChildCode", k, cc >= 0 && cc < (1L << Dim), "childPositionFromParent out of range");
            // the code must decode to the true octant (dimension 0 = most significant bit), which is how every shipped kernel reads it
            rep.eq(ORDERV == 0 ? "ChildCode" : "ChildCodeIsOctant", k, cc, e.cc, "childPositionFromParent (octant bits)");
            rep.eq("ChildCode", k, (long)space.getChildIndexFromParent(space.getParentIndex(m), cc), m, "getChildIndexFromParent(parent, code)");
        }
        // ---- per-cell lists (indices only)
        {
            auto lst = space.getInteractionListForIndex(m, l);
            std::vector<long> obs(lst.begin(), lst.end()), exp;
            for(long x : e.il) exp.push_back(x / P7);
            std::sort(obs.begin(), obs.end()); std::sort(exp.begin(), exp.end());
            rep.eq("InteractionListDef", k, vh::listStr(obs), vh::listStr(exp), "getInteractionListForIndex");
        }
        for(int upper = 0; upper < 2; ++upper){
            auto lst = space.getNeighborListForIndex(m, l, upper != 0);
            std::vector<long> obs(lst.begin(), lst.end()), exp;
            for(long x : e.nb) if(!upper || (x % P3) > P3/2) exp.push_back(x / P3);
            std::sort(obs.begin(), obs.end()); std::sort(exp.begin(), exp.end());
            rep.eq("NeighbourListDef", k, vh::listStr(obs), vh::listStr(exp), upper ? "getNeighborListForIndex(upper)" : "getNeighborListForIndex");
        }
    }
    // ---- periodic shifter (C10): which neighbours need a shift, by how many box widths, and the shifted copies of the positions
#if PERIODICV && ORDERV == 0      // (the Hilbert ordering has no getBoxLimitAtLeafLevel(): the shifter does not instantiate with it; periodic Hilbert is not a documented configuration)
    {
        using Shifter = typename TbfPeriodicShifter<Real, Space>::Neighbor;
        std::array<Real,Dim> aw, actr; for(long d = 0; d < Dim; ++d){ aw[d] = Real(1) + Real(0.5) * Real(d); actr[d] = Real(0.25) * Real(d) - Real(1); }   // anisotropic, off-centre, dyadic
        const Conf aconf(height, aw, actr); const Space aspace(aconf);
        for(auto& kv : cells){
            const CellExp& e = kv.second; if(e.l != height - 1) continue;
            const std::string k = key(height, e.l, e.m);
            rep.ok("Shift", k, e.sh.size() == e.nb.size(), "specification printed no shift list for a periodic leaf");
            for(long x : e.sh){
                const long img = x % P3, code = (x / P3) % P3, src = x / P3 / P3;
                FakeLeafHeader hs{src, aspace.getBoxPosFromIndex(src)}, ht{e.m, e.c};
                long im[Dim]; { long c = img; for(long d = Dim-1; d >= 0; --d){ im[d] = (c % 3) - 1; c /= 3; } }
                bool any = false; for(long d = 0; d < Dim; ++d) any = any || im[d] != 0;
                rep.eq("Shift", k, (long)Shifter::NeedToShift(hs, ht, aspace, code), (long)any, "TbfPeriodicShifter::NeedToShift for neighbour code " + std::to_string(code));
                const auto coef = Shifter::GetShiftCoef(hs, ht, aspace, code);
                bool coefOk = true; for(long d = 0; d < Dim; ++d) coefOk = coefOk && coef[d] == Real(im[d]) * aw[d];
                rep.ok("Shift", k, coefOk, "TbfPeriodicShifter::GetShiftCoef is not image * box width for neighbour code " + std::to_string(code));
                // duplicated positions: Dim coordinates shifted, further values copied
                constexpr long NV = Dim + 2; const long n = 3;
                Real store[NV][3]; std::array<const Real*, NV> pos; for(long v = 0; v < NV; ++v){ for(long i = 0; i < n; ++i) store[v][i] = Real(0.125) * Real(1 + v * 5 + i * 3 + (src % 7)); pos[v] = store[v]; }
                const auto dup = Shifter::DuplicatePositionsAndApplyShift(hs, ht, aspace, code, pos, n);
                bool dupOk = true, fresh = true;
                for(long v = 0; v < NV; ++v){ fresh = fresh && dup[v] != pos[v];
                    for(long i = 0; i < n; ++i) dupOk = dupOk && dup[v][i] == store[v][i] + (v < Dim ? Real(im[v]) * aw[v] : Real(0)); }
                rep.ok("Shift", k, dupOk, "TbfPeriodicShifter::DuplicatePositionsAndApplyShift: copies are not position + image * box width (values beyond the coordinates unchanged), code " + std::to_string(code));
                rep.ok("Shift", k, fresh, "TbfPeriodicShifter::DuplicatePositionsAndApplyShift returned the caller's arrays");
                Shifter::FreePositions(dup);
            }
        }
    }
#endif
    // ---- per-group builders: single-cell groups, the full level, and a sparse group with gaps
    for(long l = 0; l < height; ++l){
        auto& all = perLevel[l]; std::sort(all.begin(), all.end());
        std::vector<FakeGroup> groups;
        for(long m : all){ FakeGroup g; g.idx = {m}; groups.push_back(g); }
        { FakeGroup g; g.idx = all; groups.push_back(g); }
        if(all.size() >= 4){
            FakeGroup g; for(size_t i = all.size()/4; i < all.size() - all.size()/4; i += 2) g.idx.push_back(all[i]);
            if(g.idx.size()) groups.push_back(g);
            FakeGroup g2; for(size_t i = 0; i < all.size(); i += 3) g2.idx.push_back(all[i]);
            groups.push_back(g2);
        }
        for(size_t gi = 0; gi < groups.size(); ++gi){
            const FakeGroup& g = groups[gi];
            const std::string gk = key(height, l, g.idx.front()) + "-g" + std::to_string(g.idx.size());
            for(int self = 0; self < 2; ++self){
                // interaction lists
                auto res = space.getInteractionListForBlock(g, l, self != 0);
                std::vector<std::array<long,3>> obsIn, obsOut, expIn, expOut;
                auto conv = [&](const auto& v, std::vector<std::array<long,3>>& out, bool& posOk){
                    for(const auto& it : v){ out.push_back({{(long)it.indexTarget, (long)it.indexSrc, (long)it.arrayIndexSrc}});
                        if(it.globalTargetPos < 0 || it.globalTargetPos >= (long)g.idx.size() || g.idx[it.globalTargetPos] != it.indexTarget) posOk = false; } };
                bool posOk = true; conv(res.first, obsIn, posOk); conv(res.second, obsOut, posOk);
                rep.ok("InteractionListDef", gk, posOk, "globalTargetPos does not designate the target inside the group");
                for(long t : g.idx){ const CellExp& e = cells[{l, t}];
                    for(long x : e.il){ const long s = x / P7, c = x % P7;
                        const bool inRange = g.getStartingSpacialIndex() <= s && s <= g.getEndingSpacialIndex();
                        if(inRange){ if(!self || g.getElementFromSpacialIndex(s)) expIn.push_back({{t, s, c}}); }
                        else expOut.push_back({{t, s, c}}); } }
                std::sort(obsIn.begin(), obsIn.end()); std::sort(obsOut.begin(), obsOut.end()); std::sort(expIn.begin(), expIn.end()); std::sort(expOut.begin(), expOut.end());
                rep.ok("InteractionListDef", gk, obsIn == expIn, std::string("getInteractionListForBlock internal list differs (testSelfInclusion=") + (self ? "true)" : "false)")
                       + " observed " + std::to_string(obsIn.size()) + " expected " + std::to_string(expIn.size()));
                rep.ok("InteractionListDef", gk, obsOut == expOut, std::string("getInteractionListForBlock external list differs (testSelfInclusion=") + (self ? "true)" : "false)")
                       + " observed " + std::to_string(obsOut.size()) + " expected " + std::to_string(expOut.size()));
                // neighbour lists, with and without the upper-half filter
                for(int upper = 0; upper < 2; ++upper){
                    auto rn = space.getNeighborListForBlock(g, l, upper != 0, self != 0);
                    std::vector<std::array<long,3>> oIn, oOut, eIn, eOut; bool pOk = true;
                    conv(rn.first, oIn, pOk); conv(rn.second, oOut, pOk);
                    rep.ok("NeighbourListDef", gk, pOk, "globalTargetPos does not designate the target leaf inside the group");
                    for(long t : g.idx){ const CellExp& e = cells[{l, t}];
                        for(long x : e.nb){ const long s = x / P3, c = x % P3;
                            if(upper && !(c > P3/2)) continue;
                            const bool inRange = g.getStartingSpacialIndex() <= s && s <= g.getEndingSpacialIndex();
                            if(inRange){ if(!self || g.getElementFromSpacialIndex(s)) eIn.push_back({{t, s, c}}); }
                            else eOut.push_back({{t, s, c}}); } }
                    std::sort(oIn.begin(), oIn.end()); std::sort(oOut.begin(), oOut.end()); std::sort(eIn.begin(), eIn.end()); std::sort(eOut.begin(), eOut.end());
                    rep.ok("NeighbourListDef", gk, oIn == eIn, std::string("getNeighborListForBlock internal list differs upper=") + std::to_string(upper) + " self=" + std::to_string(self)
                           + " observed " + std::to_string(oIn.size()) + " expected " + std::to_string(eIn.size()));
                    rep.ok("NeighbourListDef", gk, oOut == eOut, std::string("getNeighborListForBlock external list differs upper=") + std::to_string(upper) + " self=" + std::to_string(self)
                           + " observed " + std::to_string(oOut.size()) + " expected " + std::to_string(eOut.size()));
                }
            }
            // self list: one entry per leaf, null offset code
            auto sl = space.getSelfListForBlock(g);
            bool okSelf = (long)sl.size() == (long)g.idx.size();
            for(size_t i = 0; okSelf && i < sl.size(); ++i)
                okSelf = sl[i].indexTarget == g.idx[i] && sl[i].indexSrc == g.idx[i] && sl[i].globalTargetPos == (long)i && sl[i].arrayIndexSrc == P3/2;
            rep.ok("NeighbourListDef", gk, okSelf, "getSelfListForBlock");
        }
    }
    return rep.finish("conf_grid");
}
