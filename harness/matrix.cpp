// C19: one translation unit per documented template configuration (selected by macros), each running the core guarantees
// (exactly-once C01, construction C06, rebuild C13) with a counting kernel on seeded random inputs.
//   DIMV 1..4 | REAL_T float/double | DATA_T | ORDERV 0 Morton, 1 periodic Morton, 2 Hilbert (3-D) | NRHS 2 or 0 | NEXTRA 2 (default) or 0 data values beyond the coordinates
//   AUTOBS 0 explicit block sizes, 1 automatic (-1) and TBFMM_BLOCK_SIZE | REBUILDV 0/1 | EXECV 0 sequential, 1 OpenMP (real libgomp), 2 target/source
#include "hcommon.hpp"
#include "spacial/tbfmortonspaceindex.hpp"
#include "spacial/tbfhilbertspaceindex.hpp"
#include "spacial/tbfspacialconfiguration.hpp"
#include "core/tbftree.hpp"
#include "core/tbftreetsm.hpp"
#include "algorithms/sequential/tbfalgorithm.hpp"
#include "algorithms/sequential/tbfalgorithmtsm.hpp"
#include "algorithms/openmp/tbfopenmpalgorithm.hpp"
#include "algorithms/periodic/tbfalgorithmperiodictoptree.hpp"
#include <random>
#ifndef DIMV
#define DIMV 3
#endif
#ifndef REAL_T
#define REAL_T double
#endif
#ifndef DATA_T
#define DATA_T REAL_T
#endif
#ifndef ORDERV
#define ORDERV 0
#endif
#ifndef NRHS
#define NRHS 2
#endif
#ifndef AUTOBS
#define AUTOBS 0
#endif
#ifndef REBUILDV
#define REBUILDV 0
#endif
#ifndef EXECV
#define EXECV 0
#endif
constexpr long Dim = DIMV;
using Real = REAL_T; using Data = DATA_T;
using Conf = TbfSpacialConfiguration<Real, Dim>;
#if ORDERV == 0
using Space = TbfMortonSpaceIndex<Dim, Conf, false>;
#elif ORDERV == 1
using Space = TbfMortonSpaceIndex<Dim, Conf, true>;
#else
using Space = TbfHilbertSpaceIndex<Dim, Conf, false>;
#endif
constexpr bool Per = (ORDERV == 1);
#ifndef NEXTRA
#define NEXTRA 2
#endif
constexpr long NbData = Dim + NEXTRA;      // NEXTRA = 0: fewer data values than result values per particle
struct Acc { long cnt; long sum; };
constexpr long BIGW = (1L << 40) + 1;      // weight of a particle index in the second result value: exceeds the mantissa of float

template <class RealType_T, class SpaceIndexType_T>
class CountKernel {
public:
    using RealType = RealType_T; using SpaceIndexType = SpaceIndexType_T;
    using SpacialConfiguration = TbfSpacialConfiguration<RealType, SpaceIndexType::Dim>;
    explicit CountKernel(const SpacialConfiguration&){}
    CountKernel(const CountKernel&) = default;
    template <class S, class P, class L> void P2M(const S&, const long int idx[], const P&, const long int n, L& leaf) const { leaf.cnt += n; for(long i = 0; i < n; ++i) leaf.sum += idx[i] * BIGW; }
    template <class S, class C, class Cell> void M2M(const S&, const long int, const C& low, Cell& up, const long int[], const long int n) const { for(long i = 0; i < n; ++i){ up.cnt += low[i].get().cnt; up.sum += low[i].get().sum; } }
    template <class S, class C, class Cell> void M2L(const S&, const long int, const C& src, const long int[], const long int n, Cell& out) const { for(long i = 0; i < n; ++i){ out.cnt += src[i].get().cnt; out.sum += src[i].get().sum; } }
    template <class S, class Cell, class C> void L2L(const S&, const long int, const Cell& up, C& low, const long int[], const long int n) const { for(long i = 0; i < n; ++i){ low[i].get().cnt += up.cnt; low[i].get().sum += up.sum; } }
    template <class S, class L, class V, class R> void L2P(const S&, const L& leaf, const long int[], const V&, R& rhs, const long int n) const {
        if constexpr(NRHS == 2){ for(long i = 0; i < n; ++i){ rhs[0][i] += leaf.cnt; rhs[1][i] += leaf.sum; } } }
    template <class S, class V, class R> void P2P(const S&, const long int i1[], const V&, R& r1, const long int n1, const S&, const long int i2[], const V&, R& r2, const long int n2, const long) const {
        if constexpr(NRHS == 2){ long s1 = 0, s2 = 0; for(long j = 0; j < n1; ++j) s1 += i1[j] * BIGW; for(long i = 0; i < n2; ++i) s2 += i2[i] * BIGW;
            for(long i = 0; i < n2; ++i){ r2[0][i] += n1; r2[1][i] += s1; } for(long j = 0; j < n1; ++j){ r1[0][j] += n2; r1[1][j] += s2; } } }
    template <class S1, class V1, class S2, class V2, class R> void P2PTsm(const S1&, const long int i1[], const V1&, const long int n1, const S2&, const long int[], const V2&, R& r2, const long int n2, const long) const {
        if constexpr(NRHS == 2){ long s1 = 0; for(long j = 0; j < n1; ++j) s1 += i1[j] * BIGW; for(long i = 0; i < n2; ++i){ r2[0][i] += n1; r2[1][i] += s1; } } }
    template <class S, class V, class R> void P2PInner(const S&, const long int idx[], const V&, R& r, const long int n) const {
        if constexpr(NRHS == 2){ long s = 0; for(long i = 0; i < n; ++i) s += idx[i] * BIGW; for(long i = 0; i < n; ++i){ r[0][i] += n - 1; r[1][i] += s - idx[i] * BIGW; } } }
};
using Kern = CountKernel<Real, Space>;
template <class T> struct TgtLeaves { T& t; template <class F> void applyToAllLeaves(F&& f){ t.applyToAllLeavesTarget(f); } };
template <class T> struct SrcLeaves { T& t; template <class F> void applyToAllLeaves(F&& f){ t.applyToAllLeavesSource(f); } };
using PosVec = std::vector<std::array<Data, NbData>>;

static std::string cfgName(){ std::ostringstream os; os << "d" << Dim << "-" << (sizeof(Real) == 4 ? "float" : "double") << "-data" << sizeof(Data) << "-" << (ORDERV == 0 ? "morton" : ORDERV == 1 ? "periodic" : "hilbert")
    << "-rhs" << NRHS << (AUTOBS ? "-autobs" : "-explicitbs") << (REBUILDV ? "-rebuild" : "") << (EXECV == 0 ? "-seq" : EXECV == 1 ? "-omp" : "-tsm"); return os.str(); }

// own binning of a position (independent of the ordering class): coordinates of the leaf whose closed box contains it
static std::array<long,Dim> leafOf(const Conf& conf, const std::array<Data,NbData>& p){
    std::array<long,Dim> c; const long side = 1L << (conf.getTreeHeight() - 1);
    for(long d = 0; d < Dim; ++d){ const double rel = (double(p[d]) - double(conf.getBoxCorner()[d])) / (double(conf.getBoxWidths()[d]) / double(side)); long k = (long)std::floor(rel); if(k >= side) k = side - 1; if(k < 0) k = 0; c[d] = k; }
    return c;
}
template <class TreeT> static void checkStored(vh::Report& rep, const std::string& key, TreeT& tree, const Conf& conf, const PosVec& pos, const char* which){
    std::vector<long> seen(pos.size(), 0);
    tree.applyToAllLeaves([&](auto&& h, const long* idx, auto data, auto){
        for(long i = 0; i < h.nbParticles; ++i){ const long in = idx[i];
            if(in < 0 || in >= (long)pos.size()){ rep.ok("StoredOnce", key, false, std::string(which) + ": stored index outside the input"); continue; }
            seen[in]++;
            const auto c = leafOf(conf, pos[in]); bool right = true; for(long d = 0; d < Dim; ++d) if(h.boxCoord[d] != c[d]) right = false;
            rep.ok("InRightLeaf", key, right, std::string(which) + ": particle stored in a leaf that does not contain it");
            bool bits = true; for(long v = 0; v < NbData; ++v) if(std::memcmp(&data[v][i], &pos[in][v], sizeof(Data)) != 0) bits = false;
            rep.ok("DataBitExact", key, bits, std::string(which) + ": stored data differ bitwise from the input (particle " + std::to_string(in) + ")"); } });
    for(size_t i = 0; i < seen.size(); ++i) rep.ok("StoredOnce", key, seen[i] == 1, std::string(which) + ": particle " + std::to_string(i) + " stored " + std::to_string(seen[i]) + " times");
}

int main(int argc, char** argv){
    const unsigned long seed = argc > 1 ? strtoul(argv[1], nullptr, 10) : 1; const long iters = argc > 2 ? atol(argv[2]) : 30;
    vh::Report rep; std::mt19937_64 rng(seed * 7919 + 13);
    const std::string cfg = cfgName();
    for(long it = 0; it < iters; ++it){
        const long maxH = Dim == 1 ? 6 : Dim == 2 ? 5 : Dim == 3 ? 4 : 3;
#ifdef DENSEV     // every third iteration: a fully occupied 6^Dim block of a deeper tree (full sibling sets, maximal interaction lists: 1215 sources per target in 4-D)
        const bool dense = !Per && (it % 3 == 0);
#else
        const bool dense = false;
#endif
        const long H = dense ? (Dim == 1 ? 7 : Dim == 2 ? 5 : 4) : (Per ? 2 : 1) + (long)(rng() % (unsigned long)(maxH - (Per ? 1 : 0)));
        std::array<Real,Dim> w, c; for(long d = 0; d < Dim; ++d){ w[d] = (Per || it % 2) ? Real(1) : Real(1L << (d + 1)); c[d] = (it % 3) ? Real(0.5) * w[d] : Real(-3) * w[d]; }
        const Conf conf(H, w, c); const long side = 1L << (H - 1);
        const long blockSide = side < 6 ? side : 6; long denseN = 1; for(long d = 0; d < Dim; ++d) denseN *= blockSide;
        const long N = dense ? denseN : 1 + (long)(rng() % 14);
        auto gen = [&](long n){ PosVec p(n); for(long i = 0; i < n; ++i){ for(long d = 0; d < Dim; ++d){ long k = (long)(rng() % (unsigned long)side); if(i > 0 && rng() % 4 == 0) k = (long)std::floor((double(p[i-1][d]) - double(conf.getBoxCorner()[d])) / (double(w[d]) / side));
                    if(k >= side) k = side - 1; const double frac = (rng() % 3 == 0) ? 0.25 : (rng() % 2 ? 0.5 : 0.75); p[i][d] = Data(double(conf.getBoxCorner()[d]) + (double(k) + frac) * (double(w[d]) / side)); }
                if constexpr(NEXTRA >= 1) p[i][Dim] = Data(0.1 * double(i + 1)); if constexpr(NEXTRA >= 2) p[i][Dim + 1] = Data(-1.0 / double(i + 3)); } return p; };
        PosVec pos = gen(N);
        if(dense){ std::array<long,Dim> a; for(long d = 0; d < Dim; ++d) a[d] = 2 * (long)(rng() % (unsigned long)((side - blockSide) / 2 + 1));
            for(long i = 0; i < N; ++i){ long r = i; for(long d = 0; d < Dim; ++d){ const long k = a[d] + r % blockSide; r /= blockSide; pos[i][d] = Data(double(conf.getBoxCorner()[d]) + (double(k) + 0.5) * (double(w[d]) / side)); } } }
        long bs = AUTOBS ? -1 : (dense ? (it % 2 ? 1000 : 37) : 1 + (long)(rng() % 6)); const bool ogpp = rng() % 2;
        if(AUTOBS && it % 2){ setenv("TBFMM_BLOCK_SIZE", std::to_string(1 + it % 5).c_str(), 1); } else unsetenv("TBFMM_BLOCK_SIZE");
        std::ostringstream ks; ks << cfg << "-seed" << seed << "-it" << it << "-h" << H << "-n" << N << "-bs" << bs << "-og" << ogpp; const std::string key = ks.str();
        rep.scenarios++;
        long sumAll = 0; for(long i = 0; i < N; ++i) sumAll += i * BIGW;
#if EXECV == 2
        PosVec tpos = gen(1 + (long)(rng() % 9));
        using Tree = TbfTreeTsm<Real, Data, NbData, long, NRHS, Acc, Acc, Space>;
        Tree tree(conf, pos, tpos, bs, ogpp);
        TbfAlgorithmTsm<Real, Kern, Space> algo(conf, Per ? TbfDefaultLastLevelPeriodic : TbfDefaultLastLevel);
        algo.execute(tree);
        if constexpr(NRHS == 2) tree.applyToAllLeavesTarget([&](auto&& h, const long*, auto, auto rhs){ for(long i = 0; i < h.nbParticles; ++i){
            const long expc = Per ? N * vh::ipow(3, Dim) : N; rep.ok("ExactlyOnce", key, rhs[0][i] == expc && rhs[1][i] == (Per ? sumAll * vh::ipow(3, Dim) : sumAll), "target did not receive every source exactly once (count " + std::to_string(rhs[0][i]) + " expected " + std::to_string(expc) + ")"); } });
        { TgtLeaves<Tree> v{tree}; checkStored(rep, key, v, conf, tpos, "target tree"); }
        { SrcLeaves<Tree> v{tree}; checkStored(rep, key, v, conf, pos, "source tree"); }
#if REBUILDV
        tree.rebuild();
        { TgtLeaves<Tree> v{tree}; checkStored(rep, key, v, conf, tpos, "target tree after rebuild"); }
        { SrcLeaves<Tree> v{tree}; checkStored(rep, key, v, conf, pos, "source tree after rebuild"); }
#endif
        {   // bulk export of both trees (after the rebuild when there is one): entry i = the values inserted at position i, bit for bit
            auto ds = tree.getAllParticlesDataSource(); bool same = true; for(long i = 0; same && i < N; ++i) for(long v = 0; v < NbData; ++v) if(std::memcmp(&ds[i][v], &pos[i][v], sizeof(Data)) != 0) same = false;
            rep.ok("Export", key, same, "getAllParticlesDataSource does not return the inserted values");
            auto dt = tree.getAllParticlesDataTarget(); same = true; for(size_t i = 0; same && i < tpos.size(); ++i) for(long v = 0; v < NbData; ++v) if(std::memcmp(&dt[i][v], &tpos[i][v], sizeof(Data)) != 0) same = false;
            rep.ok("Export", key, same, "getAllParticlesDataTarget does not return the inserted values"); }
#else
        using Tree = TbfTree<Real, Data, NbData, long, NRHS, Acc, Acc, Space>;
        Tree tree(conf, pos, bs, ogpp);
        if(AUTOBS) rep.ok("AutoBlockSize", key, tree.getNbElementsPerGroup() >= 1 && (getenv("TBFMM_BLOCK_SIZE") == nullptr || tree.getNbElementsPerGroup() == atol(getenv("TBFMM_BLOCK_SIZE"))), "automatic block size: got " + std::to_string(tree.getNbElementsPerGroup()));
        checkStored(rep, key, tree, conf, pos, "tree");
        long images = 1;
#if EXECV == 1
        TbfOpenmpAlgorithm<Real, Kern, Space> algo(conf, Per ? TbfDefaultLastLevelPeriodic : TbfDefaultLastLevel);
#else
        TbfAlgorithm<Real, Kern, Space> algo(conf, Per ? TbfDefaultLastLevelPeriodic : TbfDefaultLastLevel);
#endif
        auto fullPass = [&](){
            if constexpr(Per){
                const long above = -1 + (long)(it % 3);
                TbfAlgorithmPeriodicTopTree<Real, Kern, Acc, Acc, Space> top(conf, above);
                algo.execute(tree, TbfAlgorithmUtils::TbfBottomToTopStages); top.execute(tree);
                algo.execute(tree, TbfAlgorithmUtils::TbfTransferStages); algo.execute(tree, TbfAlgorithmUtils::TbfTopToBottomStages);
                images = top.getNbTotalRepetitions();
            } else algo.execute(tree);
        };
        fullPass();
        auto checkResults = [&](long passes, const char* what){
            if constexpr(NRHS == 2) tree.applyToAllLeaves([&](auto&& h, const long* idx, auto, auto rhs){ for(long i = 0; i < h.nbParticles; ++i){
                const long expc = passes * (N * images - 1), exps = passes * (sumAll * images - idx[i] * BIGW);
                rep.ok("ExactlyOnce", key, rhs[0][i] == expc && rhs[1][i] == exps, std::string(what) + ": particle " + std::to_string(idx[i]) + " received count " + std::to_string(rhs[0][i]) + " expected " + std::to_string(expc)); } });
            if constexpr(NRHS == 2){ auto out = tree.getAllParticlesRhs();
                for(long i = 0; i < N; ++i) rep.ok("Export", key, out[i][0] == passes * (N * images - 1) && out[i][1] == passes * (sumAll * images - i * BIGW),
                       std::string(what) + ": getAllParticlesRhs entry " + std::to_string(i) + " does not hold the results of the particle inserted at that position"); }
        };
        checkResults(1, "after one execution");
        { auto d = tree.getAllParticlesData(); bool same = true; for(long i = 0; i < N; ++i) for(long v = 0; v < NbData; ++v) if(std::memcmp(&d[i][v], &pos[i][v], sizeof(Data)) != 0 && !(double(d[i][v]) == double(pos[i][v]))) same = false;
          rep.ok("Export", key, same, "getAllParticlesData does not return the inserted values"); }
#if REBUILDV
        // move every second particle to the mirrored position, rebuild, execute again
        for(long i = 0; i < N; i += 2) for(long d = 0; d < Dim; ++d){ const long k = leafOf(conf, pos[i])[d]; pos[i][d] = Data(double(conf.getBoxCorner()[d]) + (double(side - 1 - k) + 0.5) * (double(w[d]) / side)); }
        tree.applyToAllLeaves([&](auto&& h, const long* idx, auto data, auto){ for(long i = 0; i < h.nbParticles; ++i) for(long d = 0; d < Dim; ++d) data[d][i] = pos[idx[i]][d]; });
        tree.rebuild();
        checkStored(rep, key, tree, conf, pos, "tree after rebuild");
        checkResults(1, "results preserved by rebuild");
        { auto d = tree.getAllParticlesData(); bool same = true; for(long i = 0; same && i < N; ++i) for(long v = 0; v < NbData; ++v) if(std::memcmp(&d[i][v], &pos[i][v], sizeof(Data)) != 0) same = false;
          rep.ok("Export", key, same, "getAllParticlesData after rebuild does not return the (edited) inserted values bit for bit"); }
        tree.applyToAllCells([&](const long, auto&&, auto mp, auto lo){ rep.ok("RebuildResets", key, (*mp).get().cnt == 0 && (*lo).get().cnt == 0, "expansions not reset by rebuild"); });
        fullPass();
        checkResults(2, "after rebuild + second execution");
#endif
#endif
    }
    unsetenv("TBFMM_BLOCK_SIZE");
    return rep.finish("matrix");
}
