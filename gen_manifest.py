#!/usr/bin/env python3
"""Regenerates MANIFEST.json from the table below (kept in one place so that it stays valid)."""
import json, os
HERE = os.path.dirname(os.path.abspath(__file__))
props = [json.loads(l) for l in open(os.path.join(HERE, "properties.jsonl"))]
MC = "model_checking"
T_REPLAY = "TLA+ model checking with TLC (spec/Fmm.tla, BlockTree.tla, Grid.tla) + exhaustive spec-to-code replay of every TLC scenario on the real classes with a symbolic bag kernel"
CLAIMS = {
 "C01": (MC, "TLC checks ExactlyOnce, MultipoleDef, LocalDef, RhsDef, Completes and the refinement of the dataflow layer on every occupancy pattern x block size x grouping mode x stop level of bounded pools in dimensions 1-4 (Grid's PartitionLemma is the design-level reason); every scenario is replayed on TbfTree/TbfAlgorithm with the bag kernel and the projected state (digests per level + a closed-form exactly-once check on the real buffers) compared", T_REPLAY, "5 C01"),
 "C02": (MC, "TLC checks GeometricConsistency of every contribution in every state and that each wrapper call is an enabled batch of the dataflow layer; in the replay every kernel callback is checked against the registry of true cell/particle identities (level, octant codes, offsets modulo the box, separation, adjacency, data bits, non-empty lists)", T_REPLAY + "; per-callback argument validation", "5 C02"),
 "C03": (MC, "the OpenMP executors (plain and target/source) are run under a controllable mock of the GOMP ABI on every TLC scenario with immediate and fully deferred fifo/lifo/random/priority-inverted schedules, 1-16 threads and several worker-id policies (stack scrubbed before deferred tasks), and must equal the sequential executor bag by bag; the submitted task graph is recorded (declared dependences mapped to group buffers, actual accesses from kernel callbacks) and must satisfy Covered; TLC explores all interleavings of recorded graphs with TaskRuntime.tla (NoRace, AllDone, Covered => NoRace), validates the mock's run orders and generates schedules that are replayed; an AddressSanitizer build (detect_stack_use_after_return) repeats a subset for variable lifetimes", "TLA+ model checking (TLC) of task graphs recorded from the real executor (TaskRuntime.tla) + schedule replay through a mock OpenMP runtime + spec-generated scenarios (Fmm.tla)", "5 C03"),
 "C15": ("exploration", "every TLC-generated scenario, history and schedule family is re-run on an AddressSanitizer + UBSan + assertions-on + pattern-initialised build (sequential, target/source, periodic, OpenMP under the mock runtime incl. full deferral); any sanitizer report, failed library assertion or fault is the violation; model-side capacity and assertion invariants (BatchWithinCapacity, NoAssertFail) are checked by TLC", "sanitizer runs driven by TLC-generated scenarios/schedules (the specification supplies inputs and invariants; sanitizers observe UB)", "5 C15"),
 "C06": (MC, "TLC enumerates every tree of bounded pools (BlockTreeMC) and every execution history (Fmm); the replay checks on the real tree that each input particle is stored exactly once, in the leaf of its position, with bit-identical data and zeroed results/expansions, and that a byte hash of all symbolic buffers is unchanged by every execute()", T_REPLAY, "5 C06"),
 "C07": (MC, "TLC evaluates SortedPartition, AncestorClosure, BlockBound, OgppBound, RootIsSingle on every tree of bounded pools, both grouping modes, after construction and after move/rebuild histories, both trees of the target/source variant; the real TbfTree is compared group by group and header by header with TLC's tree", T_REPLAY, "5 C07"),
 "C08": (MC, "TLC checks that the digest of the elementary interactions performed equals the grouping-free definition for every block size and grouping mode; the replay compares the multiset of elementary interactions recorded from the kernel callbacks and the bag state with it", T_REPLAY, "5 C08"),
 "C11": (MC, "TLC evaluates the axioms of spec/Grid.tla (bijection, parent containment, list definitions, code round trip, partition lemma) on every cell of every level of bounded grids in dimensions 1-4, periodic and not, and prints the expected lists; the conformance harness compares every per-cell and per-group list builder of the library with them; for Hilbert the library's coordinate table is loaded into TLC and the same axioms are evaluated on it", "TLA+ model checking (TLC) of Grid.tla + exhaustive spec-to-code conformance replay; code-to-spec table validation for Hilbert", "5 C11"),
 "C12": (MC, "TLC explores every listed history of execute(flags) calls x stop level on bounded trees, checking the WriteSets action property and NothingAboveStopLevel on every step and that all dependency-ordered staged histories end in the state of the full run; the replay performs the same call sequences on the real executor and compares byte hashes of the multipole/local/result families around every call", T_REPLAY, "5 C12"),
 "C13": (MC, "TLC explores execute/rebuild/execute and move/rebuild/execute cycles (moves that empty and create leaves and change the number of groups) and checks RebuildAddsOneInteraction and RebuildResets; the replay edits positions in place on the real tree, calls rebuild() and compares structure with TLC's fresh build, index/data/results bit-exactly, zeroed expansions and final digests", T_REPLAY, "5 C13"),
 "C16": (MC, "TLC evaluates FindIffExists (a transcription of the lower_bound look-ups) for every index from -1 to the upper bound of every level of every explored tree; the replay queries findGroupWithCell/Leaf, getElementFromSpacialIndex and getElementFromParentIndex on the real tree for the same indices", T_REPLAY, "5 C16"),
 "C17": (MC, "every TLC scenario (fresh trees, after execution, after move+rebuild, target/source trees) is replayed and getAllParticlesData/Rhs compared entry by entry with the input registry and the result bags", T_REPLAY, "5 C17"),
 "C18": (MC, "TLC checks CountersEqualElementary (counters equal the cardinalities of the elementary sets) in every scenario; the replay runs TbfInteractionCounter<BagKernel> and compares its counters with TLC's, with the wrapped kernel's own count, and the results with the unwrapped ones", T_REPLAY, "5 C18"),
}
NA = {
 "C04": "numeric truncation-error bound of the rotation kernel; a TLA+ specification has no notion of floating-point error (DESIGN.md section 5)",
 "C05": "numeric interpolation-error bound of the uniform kernel; not expressible in a TLA+ specification (DESIGN.md section 5)",
 "C20": "numeric pairwise-law accuracy of the P2P routines against extended precision; not a state/transition property (DESIGN.md section 5)",
}
checks = []
for p in props:
    pid = p["id"]
    if pid in CLAIMS:
        cat, text, tech, ref = CLAIMS[pid]
        checks.append({"property_id": pid, "quick_cmd": "./verif.py check %s --tier quick" % pid, "thorough_cmd": "./verif.py check %s --tier thorough" % pid,
                       "evidence_file": "evidence/%s.json" % pid, "replay_cmd_template": "./verif.py replay {path}", "engine": "tlc+harness",
                       "level_claimed": {"category": cat, "text": text, "design_ref": "DESIGN.md section " + ref},
                       "level_note": "bounded grids / pools / histories (exhaustive below the bounds, listed in the evidence); TLC, the harness's bag kernel and its own index arithmetic are trusted; the harness is rebuilt from /repo's working tree on every run",
                       "technique": tech})
na = [{"property_id": k, "reason": v} for k, v in NA.items()]
na += [{"property_id": p["id"], "reason": "check under construction in this session (specification layer not yet bound to the code); will be claimed when its check runs"}
       for p in props if p["id"] not in CLAIMS and p["id"] not in NA]
m = {"version": 1, "setup_cmd": "./verif.py setup",
     "hooks": {"guard": "TBFMM_VERIF", "enable": "no hook is needed: every observation point is public (kernel callbacks, tree accessors, buffer pointers, the GOMP ABI); the harness is compiled with -I/repo/src",
               "baseline_off_cmd": "cmake -G Ninja -S /repo -B /repo/_build -DBUILD_TESTS=ON && cmake --build /repo/_build && ctest --test-dir /repo/_build -j8 --timeout 900",
               "source_commits": [], "add_only": True},
     "engines": [{"name": "tlc+harness", "path": "verif.py", "serves_properties": sorted(CLAIMS), "kind_free_text": "TLA+ specifications under spec/ checked by TLC (one worker per process, scenario space sharded over processes); C++ conformance harness under harness/ built against /repo's working tree; spec->code replay and code->spec trace validation"}],
     "checks": checks, "not_applicable": na, "notes": "see DESIGN.md; known_findings.json lists genuine defects (fixed by fix: commits in /repo or recorded)"}
json.dump(m, open(os.path.join(HERE, "MANIFEST.json"), "w"), indent=1)
print("claimed:", sorted(CLAIMS), "not applicable:", [x["property_id"] for x in na])
